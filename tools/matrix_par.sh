#!/bin/bash
# usage: tools/matrix_par.sh [own|all] [seed-dir ...] -- tools/matrix.sh with MATRIX_JOBS (default 6) seeds at a time.
cd "$(dirname "$0")/.."
export GOFLAGS=-mod=mod GOPROXY=off GOSUMDB=off GOTOOLCHAIN=local; unset GOWORK
export MODE=${1:-own}; shift
one() {
  S=$1; B=$(basename $S)
  [ -f $S/patch.diff ] || return
  if [ -f $S/OBSOLETE.md ]; then echo "$B OBSOLETE"; return; fi
  SCR=$(mktemp -d /tmp/mtx.XXXXXX); mkdir -p $SCR/verif
  rsync -a --exclude .git /repo/ $SCR/repo/; cp known_findings.txt $SCR/verif/
  P=$S/patch.diff; [ -f $S/patch.rebased.diff ] && P=$S/patch.rebased.diff
  if ! (cd $SCR/repo && patch -p1 --quiet < "$OLDPWD/$P" >/dev/null 2>&1); then echo "$B PATCH-FAILED"; rm -rf $SCR; return; fi
  if ! (cd $SCR/repo && go build ./... >/dev/null 2>&1); then echo "$B BUILD-FAILED"; rm -rf $SCR; return; fi
  OWN=${B%%-*}; PROPS=$OWN; [ "$MODE" = all ] && PROPS=$(./bin/rulint -list)
  LINE="$B"
  for PP in $PROPS; do
    R=$(VERIF_DIR=$SCR/verif ./bin/rulint -property $PP -repo $SCR/repo 2>&1); RC=$?
    if [ $RC = 1 ]; then LINE="$LINE $PP:VIOL[$(echo "$R" | grep '^finding:' | head -1 | cut -d' ' -f3 | cut -d'|' -f1)]"; elif [ $RC = 2 ]; then LINE="$LINE $PP:UNDEC"; elif [ "$MODE" != all ]; then LINE="$LINE $PP:pass"; fi
  done
  echo "$LINE"; rm -rf $SCR
}
export -f one
echo ${@:-seeded/*} | tr ' ' '\n' | xargs -P ${MATRIX_JOBS:-6} -I{} bash -c 'one {}' | sort -V
