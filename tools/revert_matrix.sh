#!/bin/bash
# usage: tools/revert_matrix.sh [commit ...] -- for every `fix:` commit of /repo (default: all), reverse-apply its diff to a
# scratch copy of the current tree; where that applies and builds, run every check and report which properties' checks
# object.  A repaired defect that comes back must be reported by the rule that found it ("a fixed entry suppresses
# nothing").  Scratch copies are removed at the end.
cd "$(dirname "$0")/.."
export GOFLAGS=-mod=mod GOPROXY=off GOSUMDB=off GOTOOLCHAIN=local; unset GOWORK
SCR=$(mktemp -d /tmp/rvm.XXXXXX)
OUT=${REVERT_OUT:-/tmp/revert_matrix.out}; : > $OUT
COMMITS=${@:-$(git -C /repo log --format=%h --grep='^fix:' )}
ALL=$(./bin/rulint -list)
for C in $COMMITS; do
  rm -rf $SCR/repo $SCR/verif; mkdir -p $SCR/verif; rsync -a --exclude .git /repo/ $SCR/repo/; cp known_findings.txt $SCR/verif/
  git -C /repo show --format= $C -- '*.go' ':!*_test.go' > $SCR/fix.diff
  if ! (cd $SCR/repo && patch -R -p1 --quiet < $SCR/fix.diff >/dev/null 2>&1); then echo "$C REVERT-DOES-NOT-APPLY $(git -C /repo log -1 --format=%s $C | cut -c1-70)" >> $OUT; continue; fi
  if ! (cd $SCR/repo && go build ./... >/dev/null 2>&1); then echo "$C REVERT-DOES-NOT-BUILD $(git -C /repo log -1 --format=%s $C | cut -c1-70)" >> $OUT; continue; fi
  LINE="$C"
  HIT=0
  for PP in $ALL; do
    R=$(VERIF_DIR=$SCR/verif ./bin/rulint -property $PP -repo $SCR/repo 2>&1); RC=$?
    if [ $RC = 1 ]; then LINE="$LINE $PP:[$(echo "$R" | grep '^finding:' | head -1 | cut -d' ' -f3 | cut -d'|' -f1)]"; HIT=1; elif [ $RC = 2 ]; then LINE="$LINE $PP:UNDEC"; HIT=1; fi
  done
  [ $HIT = 0 ] && LINE="$LINE NOT-DETECTED"
  echo "$LINE  # $(git -C /repo log -1 --format=%s $C | cut -c6-75)" >> $OUT
done
rm -rf $SCR
cat $OUT
