#!/bin/bash
# Run rulio's baseline suite (guard OFF, i.e. no -tags) on a tree (default /repo) and compare with
# the 197 stable tests of /root/.vp/BASELINE.json.  Exit 0 iff every stable test passes.
DIR=${1:-/repo}
export GOFLAGS=-mod=mod GOPROXY=off GOSUMDB=off GOTOOLCHAIN=local
unset GOWORK
OUT=$(mktemp /tmp/baseline.XXXXXX.json)
(cd "$DIR" && go test -mod=mod -json -vet=off -count=1 -timeout 25m ./... > "$OUT" 2>/dev/null)
python3 - "$OUT" <<'PY'
import json,sys
base=json.load(open('/root/.vp/BASELINE.json'))
stable=set(base['stable_pass'])
res={}
for l in open(sys.argv[1]):
    try: e=json.loads(l)
    except Exception: continue
    if e.get('Test') and e.get('Action') in('pass','fail','skip'):
        res[e['Package']+'::'+e['Test']]=e['Action']
missing=[t for t in sorted(stable) if res.get(t)!='pass']
print('stable tests: %d  passing now: %d'%(len(stable),len(stable)-len(missing)))
for t in missing: print('NOT PASSING:',t,res.get(t))
sys.exit(1 if missing else 0)
PY
rc=$?
rm -f "$OUT"
exit $rc
