#!/bin/bash
# usage: tools/matrix.sh [seed-dir-glob] -- runs every built check against every seeded change on a scratch
# copy of /repo (never /repo itself) and prints a detection matrix.  Scratch copies are removed at the end.
cd "$(dirname "$0")/.."
export GOFLAGS=-mod=mod GOPROXY=off GOSUMDB=off GOTOOLCHAIN=local; unset GOWORK
SCR=$(mktemp -d /tmp/matrix.XXXXXX)
PROPS=$(./bin/rulint -list)
OUT=${MATRIX_OUT:-/tmp/matrix.out}
: > $OUT
for S in ${1:-seeded/*}; do
  [ -f $S/patch.diff ] || continue
  rm -rf $SCR/repo $SCR/verif; mkdir -p $SCR/verif
  rsync -a --exclude .git /repo/ $SCR/repo/
  cp known_findings.txt $SCR/verif/
  if ! (cd $SCR/repo && patch -p1 --quiet < "$OLDPWD/$S/patch.diff" >/dev/null 2>&1); then echo "$(basename $S) PATCH-FAILED" >> $OUT; continue; fi
  LINE="$(basename $S)"
  for P in $PROPS; do
    R=$(VERIF_DIR=$SCR/verif ./bin/rulint -property $P -repo $SCR/repo 2>&1); RC=$?
    if [ $RC = 1 ]; then LINE="$LINE $P:VIOL"; elif [ $RC = 2 ]; then LINE="$LINE $P:UNDEC"; fi
  done
  echo "$LINE" >> $OUT
done
rm -rf $SCR
cat $OUT
