#!/bin/bash
# usage: tools/matrix.sh [own|all] [seed-dir ...] -- runs the checks against seeded changes on a scratch copy of /repo
# (never /repo itself) and prints a detection matrix.  "own" (default) runs only the check of the property the seed
# was written against; "all" runs every registered check.  Scratch copies are removed at the end.
cd "$(dirname "$0")/.."
export GOFLAGS=-mod=mod GOPROXY=off GOSUMDB=off GOTOOLCHAIN=local; unset GOWORK
MODE=${1:-own}; shift
SEEDS=${@:-seeded/*}
SCR=$(mktemp -d /tmp/mtx.XXXXXX)
ALL=$(./bin/rulint -list)
OUT=${MATRIX_OUT:-/tmp/matrix.out}
: > $OUT
for S in $SEEDS; do
  [ -f $S/patch.diff ] || continue
  if [ -f $S/OBSOLETE.md ]; then echo "$(basename $S) OBSOLETE" >> $OUT; continue; fi
  rm -rf $SCR/repo $SCR/verif; mkdir -p $SCR/verif
  rsync -a --exclude .git /repo/ $SCR/repo/
  cp known_findings.txt $SCR/verif/
  P=$S/patch.diff; [ -f $S/patch.rebased.diff ] && P=$S/patch.rebased.diff
  if ! (cd $SCR/repo && patch -p1 --quiet < "$OLDPWD/$P" >/dev/null 2>&1); then echo "$(basename $S) PATCH-FAILED" >> $OUT; continue; fi
  if ! (cd $SCR/repo && go build ./... >/dev/null 2>&1); then echo "$(basename $S) BUILD-FAILED" >> $OUT; continue; fi
  B=$(basename $S); OWN=${B%%-*}
  PROPS=$OWN; [ "$MODE" = all ] && PROPS=$ALL
  LINE="$B"
  for PP in $PROPS; do
    R=$(VERIF_DIR=$SCR/verif ./bin/rulint -property $PP -repo $SCR/repo 2>&1); RC=$?
    if [ $RC = 1 ]; then LINE="$LINE $PP:VIOL[$(echo "$R" | grep '^finding:' | head -1 | cut -d' ' -f3 | cut -d'|' -f1)]"; elif [ $RC = 2 ]; then LINE="$LINE $PP:UNDEC"; else LINE="$LINE $PP:pass"; fi
  done
  echo "$LINE" >> $OUT
done
rm -rf $SCR
cat $OUT
