#!/usr/bin/env python3
"""Generate /verif/MANIFEST.json from the table below (kept next to the code so the two stay in step)."""
import json, os, subprocess
HERE = os.path.dirname(os.path.dirname(os.path.abspath(__file__)))

BASELINE_OFF = "cd /repo && go test -mod=mod -json -vet=off -count=1 -timeout 25m ./..."

# property -> (technique, level text, level note, design ref)
NOTE = 'Trusts go/types, go/ssa and the VTA call graph (x/tools v0.29.0) and the hand-confirmed anchor tables in /verif/rulint, which are re-resolved through go/types on every run; path-insensitive except where stated; decides the named structural clauses only, never the behavioural property as a whole.'

def lvl(what, notdecided):
    return ("Structural necessary conditions of the property, decided from the source on every static path of the current tree (all paths, all call chains, all implementations at once): " + what + " A pass is not a proof of the behavioural property; not decided: " + notdecided)

CLAIMED = {
 "C01": ("pairing / provenance / sibling-agreement rules over go/ssa (rule index vs fact map, trie visit<=>collect, cache invalidation)",
         lvl("the stored rule's pattern is un-indexed (with a pattern derived from the stored fact) before IdToFact[id] is replaced or deleted; a non-scheduled rule is indexed before it is stored; every trie node the search continues into has its ids collected (and the root's too); writer and reader of the trie dispatch on the same value kinds; every fact-map write invalidates the parsed-rule cache; every recursive step of the two trie walks continues with the remaining pairs; wiping the fact map wipes both indexes; dispatch re-matches the candidate against the event.", "completeness of the trie search beyond visit<=>collect, the bindings, ancestor merging, expiry timing."),
         NOTE, "DESIGN.md §4 C01"),
 "C06": ("error-flow (path-sensitive taint of error values over SSA + call-graph carriers), must-pass-through with success-return classification, provenance, transaction-scope escape analysis",
         lvl("every core.Storage error reaches the caller's error result on every path (purge-on-read errors cut off and listed); every success return of State.Add lies behind Storage.Add and every removal from memory is paired with the storage removal; the persisted bytes are marshalled from the prepared fact that is kept in memory; storage calls use the state's own namespace; bolt-owned byte slices do not escape their transaction.", "crash points between two storage writes, equality of reloaded and live locations, fault sequences."),
         NOTE, "DESIGN.md §4 C06"),
 "C07": ("gate (must-pass-through) analysis on the purge helper, return-value truth rule, provenance with control dependence",
         lvl("stored items reach results only behind the not-expired edge of expire(); the purge helper reports expired even when the clean-up fails; writes are refused before anything is stored when PrepareFact rejects them; the has-expiry flag and the canonical absolute expiry are computed after ttl canonicalisation and from the clock; what is persisted carries the absolute expiry and no ttl (a ttl is consumed on every accepting path).", "the boundary comparison (<= vs <), the arithmetic of setExpires, purge timing."),
         NOTE, "DESIGN.md §4 C07"),
 "C08": ("pairing / ordering rules with path-sensitive success-return classification and constant-argument specialisation; provenance of deleteWith",
         lvl("the removal primitive always cascades (also for absent ids), the cascade runs only after the id left the map (termination on cycles), dependents come from the re-matching search for {deleteWith:[id]}, removals from memory are paired with storage removals, property facts and rule wrappers carry deleteWith; an error from removing a dependent fails the removal that started the cascade; the term extractor that feeds the index visits every key.", "that exactly the dependents are found (relies on matching and the term index), deletion orders."),
         NOTE, "DESIGN.md §4 C08"),
 "C10": ("gate analysis over SSA + VTA call graph (Enabled / RuleEnabled), pairing rules (cache invalidation, disabled flag)",
         lvl("every Location entry refuses on the disabled edge before touching state; FindRules.Do dispatches a rule only behind RuleEnabled == true asked about the id under which the rule was found (except rules embedded in the event); every fact-map write drops the cached parse; RemRule removes the disabled flag.", "the lifecycle state machine over histories, reload survival, inherited disablement."),
         NOTE, "DESIGN.md §4 C10"),
 "C11": ("lock-set (guarded-by) analysis with wrapper summaries, constant-bool specialisation, SCC fixpoint and escape-aware freshness",
         lvl("every access to the state that different locations share (System.storage, the location cache table and entries, MemStorage, timer histories, the HTTP breaker map) is made under its mutex on every static path, or is listed as a known finding; counters updated atomically are never accessed plainly; HTTP requests run in their own sub-context; lock classes are acquired in one global order; no append clobbers the tail of the shared cron timeline.", "per-location sequential equivalence; deadlock is decided only as far as lock ORDER goes (LOCK-ORDER: the acquired-while-holding relation over lock classes is acyclic), not for waits on channels, WaitGroups or the same lock class."),
         NOTE + " Lock identity is by (type, mutex field).", "DESIGN.md §3.1, §4 C11"),
 "C12": ("lock-set (guarded-by) analysis incl. storage writes and privilege grants as pseudo-accesses; atomic-section and pairing rules",
         lvl("every access to the state maps/indexes/rule cache, Location.control/ReadOnly/lastUpdated and Context privilege/props is under the owning lock in a sufficient mode; storage writes and privilege grants happen under the state's write lock; no lock release between the storage write and the memory write of one operation; every privilege grant is revoked on every path; lock classes are acquired in one global order; no function outside the states writes through an object that was handed out of a state's guarded container. Existing violations are listed one by one as known findings so that a new unguarded access is still reported.", "linearizability of histories; deadlock beyond lock order (LOCK-ORDER decides that the acquired-while-holding relation over lock classes is acyclic)."),
         NOTE + " Lock identity is by (type, mutex field); Context.isPrivileged assumed false where it steers slock/sunlock.", "DESIGN.md §3.1, §4 C12"),
 "C15": ("coverage (pairing with per-id matching) analysis of add/removal hooks over the state implementations; gate rule for one-shot rules; provenance of the cron job key",
         lvl("every id that enters / leaves a state's fact map has the add / removal hook run for it first (violations on expiry, cascade and linear Clear/Delete/Load are known findings); one-shot rules are removed after they ran; with a cron shared by all locations the job key depends on the location; the hooks are installed before a location is loaded; a recurring job is put back on the timeline after every tick whatever the tick returned; the cron's timer is re-armed whenever it fired and jobs are pending; the binary-searched timeline is never reordered element-wise.", "tick timing, which location a tick is evaluated in, replacement by a non-scheduled rule."),
         NOTE, "DESIGN.md §4 C15"),
 "C19": ("must-pass-through (gate) analysis over go/ssa CFGs + VTA call graph; who-may-call; operand provenance in the gates",
         lvl("every path from each exported Location method and each root (JS callbacks, goroutines) to a mutating/revealing State call passes the success edge of CheckWrite/CheckRead/Enabled before the first state access; ungated mutators are called only from allow-listed code; the gates compare the right key with the right property and sub-contexts inherit the keys.", "equality of behaviour with the right keys."),
         NOTE + " Reflection-invoked closures are treated as entries; external App/Tracer/Logger implementers assumed not to touch state.", "DESIGN.md §3.2, §4 C19"),
 "C20": ("gate analysis (capacity, HTTP breaker), lock-set, atomic-section, value-dependence and sibling-agreement rules over the breakers and the throttle",
         lvl("State.Add only behind the not-at-capacity edge; the breaker's limit test and admission increment are in one critical section; the sliding clock is computed from the quantised shift (or drops the remainder only when the whole window aged out); every Breaker.Do reports true whenever it ran the thunk; the throttle's pending accounting is atomic and paired and the breaker is retried only on the not-attempted edge; client.Do only behind the breaker consultation.", "the numeric rate bound over sliding windows, capacity under concurrent adds."),
         NOTE, "DESIGN.md §4 C20"),
}

CLAIMED.update({
 "C02": ("provenance / purity (MOD) / control-dependence / sibling-agreement rules over the term index and the two search functions",
         lvl("add, remove and search use the same term extraction; the read operations of the indexes never write through their receiver; a result is emitted only under a test of Matches(pattern, storedFact); the term extractor covers every container the matcher converts; the returned id is the memory and storage key; the loops of the term extractor are left only by exhaustion; the property marker is tested at byte 0.", "that terms(pattern) is a subset of terms(fact) for every matching pair, the intersection logic, uniqueness of generated ids, get-after-write values."),
         NOTE, "DESIGN.md §4 C02"),
 "C04": ("fan-out ownership / synchronisation analysis of goroutines started in loops, loop-shape rule, gate rule on dispositions",
         lvl("each concurrently running action owns a freshly allocated bindings map; the goroutines' shared writes are under one mutex allocated outside the spawning loop with WaitGroup Add/Done/Wait in place; every loop iteration that creates child nodes appends exactly one; nodes are complete only on the no-error edge; a new fan-out gets a new mutex only after the previous goroutines were waited for; no loop appends one shared object per iteration; the thunk builders look into the bindings only inside the thunk (the event is copied after they return); an action's value is reported under that action's own disposition; the executed code is a function of the action's code.", "the variable environment seen by scripts, equality of tree / values / side effects, which bindings the condition yields."),
         NOTE, "DESIGN.md §4 C04"),
 "C05": ("bottom-up MOD (may-modify) summaries over SSA with alias projection, through the sheens matcher and VTA-resolved interface dispatch",
         lvl("neither the pattern, the data nor the caller's bindings can be written through by Match / Matches / the matcher wrappers / cast / ISlice / Bind / ExtendBindings / StripQuestionMarks (the last clause of the property only); cast returns a newly built container for every container it recognises; ISlice is sized by the length; the conversion loops visit every element.", "soundness and completeness of matching: the algorithm lives in the sheens dependency and quantifies over data."),
         NOTE, "DESIGN.md §4 C05"),
 "C09": ("recursion classification of call-graph SCCs (visited-set class), ordering rule of the ancestor walk, provenance of namespaces and cron keys, who-may-write inventory of package-level variables",
         lvl("the ancestor walk is bounded by a path set whose insertions are undone, visits the receiving location last, and every callback handed to it re-points the request context at the location it visits; every storage call of a state uses its own name; the shared cron keys jobs by location; the set of written package-level variables is a frozen table of process-wide state.", "non-interference of results, that exactly the transitive parents' facts are seen, immediacy of parent changes."),
         NOTE, "DESIGN.md §4 C09"),
 "C13": ("recursion classification, type-set data-flow for unchecked assertions, explicit-panic / constant-index inventory with named exceptions, nil-after-error and nil-after-failed-assertion reachability, lock-release-by-plain-call rule, privilege pairing",
         lvl("every recursive cycle is structural, state-decreasing, bounded or visited-set guarded; no unchecked type assertion, explicit panic or unguarded constant index remains outside a table of named exceptions; no pointer is dereferenced after an only-logged error; no lock released by a plain call encloses code that can panic or leaves rulio's control; granted privileges are always revoked.", "totality in general (other nil dereferences, stack depth of structural recursion on deeply nested input, time bounds), behaviour inside otto and the sheens matcher."),
         NOTE, "DESIGN.md §4 C13"),
 "C14": ("path-sensitive error-flow from the JavaScript engine to the work-tree nodes, deferred-recover result rule, channel hand-shake rule, gate rule on dispositions",
         lvl("every compile / run / export error reaches the caller's error result or the node's disposition and is never turned into success; a recovered interrupt sets the function's error result; the watchdog hand-shake cannot block the caller; nodes are complete only without error; the request context points at the evaluating location after an inherited search (the timeout is taken from it).", "that the interrupt stops the engine within a bound, the timeout selection arithmetic, what a finishing script sees."),
         NOTE, "DESIGN.md §4 C14"),
 "C16": ("lock-set analysis of the in-memory cron, pairing / control-dependence rules, transaction-scope escape analysis, cross-transaction check-then-act rule, sibling-bucket pairing, key-layout provenance for crolt",
         lvl("Cron.{Timeline,control,timerTarget} under the cron mutex; remove-then-insert in one critical section on every path; a job is launched only under a comparison with its due time; bolt-owned bytes do not escape their transaction; no decision read in one transaction controls a write in another; jobs<p> and time<p> are written together on every path; variable-width time keys are listed as a known finding; buckets are chosen by the account the job key is built from; no append clobbers the tail of the timeline; bolt errors in crolt reach the caller; the timer is re-armed while jobs are pending; the timeline stays sorted.", "exactly-once firing, no-fire-after-Rem while a recurring job runs, restart consistency."),
         NOTE, "DESIGN.md §4 C16"),
 "C17": ("lock-set analysis of the cache structures, who-may-call + critical-section + edge rule for the single load, gate rule for caching on success only, ordering rule on the pending flag, constant-argument rule for existence checking",
         lvl("the cache table and entries are accessed under their locks; OpenLocation is called only from CachedLocation.Get under the entry lock on the no-location-yet edge; miss-and-insert is one critical section; a location is cached only on the no-error edge; Pending is stored before it is consulted; every operation asks for the existence check and a checked, not-created location yields an error; no operation uses its location after releasing it; the cache returns only the error of OpenLocation; the in-use mark must count its users (it does not: known finding, reproduced at run time); a new entry is published only on the not-present edge of a lookup of the table in the same critical section; a wiped state resets its indexes.", "independence of results from the TTL over all histories."),
         NOTE, "DESIGN.md §4 C17"),
 "C18": ("path-sensitive error-flow inside ProcessRequest and ServeHTTP, provenance of getter results, writer/reader table agreement, default-case rule",
         lvl("in every /api/loc/* case the error of every getter, System call, inner request and json.Marshal reaches the error result; no System argument derives from a getter's `given` flag; every parameter read as a map is declared json in the decoder table; ServeHTTP routes every error to protest(), which writes 400 first; an unknown URI ends in an error.", "equality of results with direct System calls, escaping, URI normalisation (DWIMURI)."),
         NOTE, "DESIGN.md §4 C18"),
})

CLAIMED.update({
 "C03": ("data-dependence (flow-sensitive on local slots) and edge-deleted reachability rules over the SSA of the six Query.Exec implementations; natural-loop exit analysis; who-produces rule for ParseQuery",
         lvl("the wiring of the combinators: `and` hands conjunct i+1 the result of conjunct i and returns the last result; `or` hands every disjunct the single incoming binding (never an earlier disjunct's output), appends every disjunct's bindings, and leaves the loop early only under ShortCircuit and a non-empty result; `not` keeps an incoming binding exactly on the edge `the negated query produced nothing`; `pattern` searches for the pattern bound with the incoming binding and appends ExtendBindings(incoming, found) for every found binding; `code` runs the script on the incoming binding, keeps it exactly on true / non-null and merges a returned object into a per-binding copy under ?-keys; the empty query returns its input; no loop drops the remaining bindings; every combinator is produced below ParseQuery.", "which bindings a pattern produces (matching and search are value-level), equality of the result multiset with a reference evaluator over all query programs, the scripts' values, inherited facts."),
         NOTE, "DESIGN.md §4 C03"),
})


# clauses added in session 4 (round 4 of the seeded changes and the reports about the unchanged tree); DESIGN.md §4 "Session 4"
EXTRA = {
 "C01": " Added later (DESIGN.md §4, Session 4): a refused replacement puts the old pattern back (IDX-ROLLBACK); writer and reader of the trie combine nested and remaining pairs in the same order (IDX-ORDER); the ancestor walk has a visited set (ANC-ONCE); an empty schedule is no schedule everywhere (SCHED-AGREE); the variable-key branch is tried whether or not the key is literal (IDX-KEYVAR); every sortable element type has a case in Less (LESS-COVERS); picast is idempotent (PICAST-IDEM); SortValues sorts a copy (MOD-INDEX); a candidate that went away during the scan is skipped (LOST-RULE-SKIP); no copy into a zero-length slice (COPY-EMPTY). Known finding: an unsortable event array fails the whole event (IDX-SORT-TOTAL). Session 5: `when` decoded as it is indexed (WHEN-AGREE); a rule-shaped fact does not fail the lookup (RULE-SHAPED-SKIP); no break in the parents loop (LOOP-EXHAUST).",
 "C02": " Added later: every addition to the term set passes the extractor's own filter (TERM-FILTER); indexed terms come from the prepared fact (TERM-PREPARED). Session 5: the fact index changes only after the last refusal point (FACTIDX-LAST); the length limit applies to every container kind (TERM-FILTER).",
 "C03": " Added later: TERM-PREPARED (the terms a pattern query relies on are those of the stored fact). Session 5: no Exec writes through the incoming result (QUERY-PURE, MOD-PURE); Bind decides by presence (BIND-PRESENCE).",
 "C04": " Added later: the thunk builders do not look into the bindings before the thunk runs (THUNK-LAZY); `values` is tested against the action's own disposition (VALUES-OWN-DISP); DecodeString's result depends on the code (DECODE-DEP); IDX-ORDER; SortValues does not reorder the submitted event (MOD-INDEX). Session 5: QUERY-PURE; serial/concurrent decided per rule (FAN-MODE-LOCAL); Copy reaches below arrays (COPY-DEEP); WHEN-AGREE.",
 "C06": " Added later: memory is written after Storage.Add succeeded or a failed write takes it out again (STORE-BEFORE-MEM; IndexedState.Add is a known finding); storage removal before the fact leaves memory (REM-STORE-FIRST); the add hook runs before Storage.Add (HOOK-BEFORE-STORE); the stored parents list is a value, never nil/aliased (PARENTS-VALUE). Session 5: memory wiped only when storage was (CLEAR-ACK); FACTIDX-LAST; hooks installed before the load (HOOKS-BEFORE-LOAD).",
 "C07": " Added later: the ttl is consumed when it is turned into expires (EXP-TTL-CONSUMED); the clock is read after the state lock was taken (CLOCK-AFTER-LOCK); an absolute expires is not added to the clock (EXP-ABSOLUTE). Session 5: every ttl encoding is relative to the clock (EXP-TTL-RELATIVE); AddRule canonicalises before it validates (EXP-CANON-FIRST); a parsed instant is not rounded up (EXP-PARSE-EXACT).",
 "C08": " Added later: TERM-FILTER (the cascade's search terms), REM-STORE-FIRST. Session 5: expiry noticed at load cascades (CASC-LOAD); an id is never a pattern variable (CASC-NOVAR); every property fact names its target in deleteWith (PROP-DW-ANY).",
 "C09": " Added later: every callback of the ancestor walk re-points the context (ANC-RESTORE); the walk has a visited set, so a diamond of parents is not a duplicate (ANC-ONCE); PARENTS-VALUE; COPY-EMPTY. Session 5: entry methods point the context at their location unconditionally (CTX-ENTRY); scripts run with the context pointed at the running location (CTX-SCRIPT); the visited set is filled on the way back (ANC-ONCE); crolt query values escaped (CROLT-ESCAPE).",
 "C10": " Added later: rules embedded in an event are refused in a disabled location (GATE-FIRE); STORE-BEFORE-MEM (IndexedState.Add is a known finding); IDX-ROLLBACK. Session 5: an expired predecessor is purged before anything is indexed (ADD-EXPIRES-STALE); PROP-DW-ANY.",
 "C11": " Added later: the lock-order graph over rulio's mutexes has no cycle (LOCK-ORDER); no append-insert clobbers the tail of a shared slice (APPEND-CLOBBER). Session 5: pending requests are un-counted on every path (PENDING-PAIR); the shared cron's timeline stays sorted (TIMELINE-ORDER); shared code props are copied for each script (SHARED-TO-JS).",
 "C12": " Added later: LOCK-ORDER; values reachable from shared state are not written by readers (SHARED-WRITE); the failed-open clean-up re-checks under both locks (CACHE-EVICT). Session 5: no unprivileged re-entry into a held state lock (LOCK-REENTRY).",
 "C13": " Added later: no call hands a dereferencing function the zero value of a variable no store has reached (NIL-ZERO-ARG); the error of the cache's Get originates in opening / the existence check only (CACHE-ERR-ORIGIN). Session 5: structural recursion is position-aware (TERM); LOCK-REENTRY; PENDING-PAIR; a stored rule that cannot be scheduled still loads (HOOK-LOAD-TOLERANT); no typed nil as error (TYPED-NIL); RunJavascript recovers every panic (RECOVER-ALL); the cron parser is called under a recover (PARSE-RECOVER); RULE-SHAPED-SKIP; reserved properties are type-checked at write (PROP-TYPED). An interval with a zero tick length is refused (BRK-INTERVAL); no blocking send under the cron's mutex (LOCK-SEND).",
 "C14": " Added later: ANC-RESTORE, THUNK-LAZY, every constructor parameter is used (CTOR-PARAM: the per-group script timeout reaches the location). Session 5: RECOVER-ALL, TYPED-NIL.",
 "C15": " Added later: the cron loop re-arms its timer on every wake-up (CRON-REARM); the timeline stays sorted (TIMELINE-ORDER); the add hook never leaves a refused replacement without its job (HOOK-ADD-KEEPS), unregisters a scheduled rule that is overwritten by something unscheduled (HOOK-REPLACE) and runs before storage is written (HOOK-BEFORE-STORE); a due time from cronexpr is stored only under an IsZero test (CRON-NEXT-ZERO); OneShotSchedule classifies the trimmed schedule (ONESHOT-AGREE); crolt request URLs carry their endpoint (CROLT-URL). Session 5: the removal hook accepts a missing id (HOOK-REM-MISSING); HOOK-LOAD-TOLERANT; CROLT-ESCAPE; the trigger event carries the id as a JSON string (JSON-QUOTE); a job removed or replaced while it runs stays out (CRON-INFLIGHT). A refusal by crolt is a refusal (CROLT-STATUS); a refused replacement keeps the old job (CRON-LIMIT-FIRST).",
 "C16": " Added later: CRON-REARM, TIMELINE-ORDER, CRON-NEXT-ZERO, time.Parse argument order (TIME-PARSE-ARGS), CROLT-URL, every store into Job.at is a UTC time (AT-UTC), writer and deleter of a job agree on the partition (PARTITION-AGREE), bolt errors inside transactions reach the closure's result (BOLT-ERR). Session 5: delete-then-put on crolt's time index (TIMEIDX-ORDER); CROLT-ESCAPE; CRON-INFLIGHT. CROLT-STATUS; the jitter is never negative (JITTER-NONNEG); CRON-LIMIT-FIRST; LOCK-SEND; a loop that starts arms its timer (CRON-START-ARMS).",
 "C17": " Added later: get-or-create on the cache table is decided by presence (CACHE-GET-OR-CREATE); the in-use mark counts its users (PENDING-COUNT: known finding); CACHE-EVICT; with CachePending on every new entry is published before the table lock is released (CACHE-PENDING-SHARED); the two cache mutexes are taken in one order (LOCK-ORDER); every checked request looks at the creation marker, cached or not (EXIST-EVERY); Storage.Load does not write the storage object (LOAD-PURE). Session 5: an entry's location is only written with OpenLocation's result (CACHE-LOC-STICKY). Every function that installs a control forces CachePending on it (premise clause of CACHE-PENDING-SHARED).",
 "C19": " Added later: the key gates fail closed when the key cannot be read (GATE-FAILCLOSED); the parent list is handed out only behind CheckRead (GATE-PARENTS); the size of a disabled location is not reported (GATE-COUNT). Session 5: PROP-TYPED; the trusted caller of SetProp passes the location's gates (GATE-UNTRUSTED).",
 "C20": " Added later: CTOR-PARAM (the per-group capacity reaches the location); the throttle gives back only slots it took and every slot it took (THR-PENDING); Adjust keeps the calls in the window (BRK-ADJUST). Known finding: the window has as many elements as ticks, so it reaches back less than one interval (BRK-WINDOW). Session 5: the all-aged-out branch of slide is not dead (BRK-SLIDE). BRK-INTERVAL; an Adjust that changes the window's shape carries the counted calls over (BRK-ADJUST, carry clause).",
 "C05": "Session 5: BIND-PRESENCE. The cast in front of the matcher covers pattern, fact and initial bindings (CAST-ALL-INPUTS) and Go integers (CAST-NUMBERS).",
 "C18": "Session 5: strings pasted into JSON answers are JSON strings (JSON-QUOTE); a parameter's value decides, not its presence (PARAM-PRESENCE); TYPED-NIL. The operation is the one the request was sent to (URI-PATH-WINS); error texts are data, not formats (FMT-CONST).",
}

NOT_APPLICABLE = {
}

def main():
    props = [json.loads(l)["id"] for l in open(os.path.join(HERE, "properties.jsonl"))]
    checks = []
    na = []
    for pid in props:
        if pid in CLAIMED:
            tech, text, note, ref = CLAIMED[pid]
            text = text + (" " + EXTRA[pid].strip() if pid in EXTRA else "")
            checks.append({
                "property_id": pid,
                "quick_cmd": f"./check {pid} quick",
                "thorough_cmd": f"./check {pid} thorough",
                "evidence_file": f"/verif/evidence/{pid}.json",
                "replay_cmd_template": "./bin/rulint -replay {path}",
                "engine": "rulint",
                "level_claimed": {"category": "other", "text": text, "design_ref": ref},
                "level_note": note,
                "technique": tech,
            })
        else:
            na.append({"property_id": pid, "reason": NOT_APPLICABLE.get(pid, "static check not built yet in this session (work in progress); see DESIGN.md §4 for the planned structural clauses")})
    m = {
        "version": 1,
        "setup_cmd": "./setup.sh",
        "hooks": {
            "guard": "verif",
            "enable": "rulint loads /repo with build tag `verif` (go/packages BuildFlags -tags=verif); no hook files exist: the analysis reads source and needs no instrumentation",
            "baseline_off_cmd": BASELINE_OFF,
            "source_commits": [],
            "add_only": True,
        },
        "engines": [{
            "name": "rulint", "path": "/verif/rulint",
            "serves_properties": sorted(CLAIMED),
            "kind_free_text": "repository-specific static analyser (go/packages + go/ssa + VTA call graph, x/tools v0.29.0): gate/must-pass-through, lock-set, error-flow, provenance, pairing, recursion and sibling-agreement rules anchored through go/types",
        }],
        "checks": checks,
        "not_applicable": na,
        "notes": "All checks are static: each run re-loads and re-type-checks /repo's working tree and reports specific constructs. Exit 2 + an UNDECIDED line means an anchor could not be resolved or a rule matched fewer instances than its hand-confirmed floor (never a silent pass). Known findings: /verif/known_findings.txt.",
    }
    json.dump(m, open(os.path.join(HERE, "MANIFEST.json"), "w"), indent=1)
    print("wrote MANIFEST.json:", len(checks), "checks,", len(na), "not applicable")

if __name__ == "__main__":
    main()
