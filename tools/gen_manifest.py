#!/usr/bin/env python3
"""Generate /verif/MANIFEST.json from the table below (kept next to the code so the two stay in step)."""
import json, os, subprocess
HERE = os.path.dirname(os.path.dirname(os.path.abspath(__file__)))

BASELINE_OFF = "cd /repo && go test -mod=mod -json -vet=off -count=1 -timeout 25m ./..."

# property -> (technique, level text, level note, design ref)
CLAIMED = {
 "C19": ("static must-pass-through (gate) analysis over go/ssa CFGs + VTA call graph; who-may-call; operand provenance in the gates",
         "Structural necessary conditions of the access-control property decided on every static path of the current tree: every path from each exported Location method and each root (JS callbacks, goroutines) to a mutating/revealing State call passes the success edge of CheckWrite/CheckRead/Enabled before the first state access; ungated mutators are called only from allow-listed code; the gates compare the right key with the right property and sub-contexts inherit the keys. Not a proof of the behavioural property (no claim about equality of behaviour with the right keys).",
         "Trusts go/types, go/ssa and the VTA call graph (x/tools v0.29.0); reflection-invoked closures are treated as entries; external App/Tracer/Logger implementers assumed not to touch state.",
         "DESIGN.md §3.2, §4 C19"),
}

NOT_APPLICABLE = {
 "C03": "query semantics is a denotational, value-level property over all query programs; no structural clause is a necessary condition that static analysis can decide (DESIGN.md §5); a reference evaluator on generated programs is a different technique family",
}

def main():
    props = [json.loads(l)["id"] for l in open(os.path.join(HERE, "properties.jsonl"))]
    checks = []
    na = []
    for pid in props:
        if pid in CLAIMED:
            tech, text, note, ref = CLAIMED[pid]
            checks.append({
                "property_id": pid,
                "quick_cmd": f"./check {pid} quick",
                "thorough_cmd": f"./check {pid} thorough",
                "evidence_file": f"/verif/evidence/{pid}.json",
                "replay_cmd_template": "./bin/rulint -replay {path}",
                "engine": "rulint",
                "level_claimed": {"category": "other", "text": text, "design_ref": ref},
                "level_note": note,
                "technique": tech,
            })
        else:
            na.append({"property_id": pid, "reason": NOT_APPLICABLE.get(pid, "static check not built yet in this session (work in progress); see DESIGN.md §4 for the planned structural clauses")})
    m = {
        "version": 1,
        "setup_cmd": "./setup.sh",
        "hooks": {
            "guard": "verif",
            "enable": "rulint loads /repo with build tag `verif` (go/packages BuildFlags -tags=verif); no hook files exist: the analysis reads source and needs no instrumentation",
            "baseline_off_cmd": BASELINE_OFF,
            "source_commits": [],
            "add_only": True,
        },
        "engines": [{
            "name": "rulint", "path": "/verif/rulint",
            "serves_properties": sorted(CLAIMED),
            "kind_free_text": "repository-specific static analyser (go/packages + go/ssa + VTA call graph, x/tools v0.29.0): gate/must-pass-through, lock-set, error-flow, provenance, pairing, recursion and sibling-agreement rules anchored through go/types",
        }],
        "checks": checks,
        "not_applicable": na,
        "notes": "All checks are static: each run re-loads and re-type-checks /repo's working tree and reports specific constructs. Exit 2 + an UNDECIDED line means an anchor could not be resolved or a rule matched fewer instances than its hand-confirmed floor (never a silent pass). Known findings: /verif/known_findings.txt.",
    }
    json.dump(m, open(os.path.join(HERE, "MANIFEST.json"), "w"), indent=1)
    print("wrote MANIFEST.json:", len(checks), "checks,", len(na), "not applicable")

if __name__ == "__main__":
    main()
