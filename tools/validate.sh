#!/bin/bash
# validate MANIFEST.json and every evidence/*.json against the schemas
cd "$(dirname "$0")/.."
python3-vt - <<'PY'
import json,jsonschema,glob,sys
ok=True
jsonschema.validate(json.load(open('MANIFEST.json')),json.load(open('/root/.vp/MANIFEST.schema.json')))
es=json.load(open('/root/.vp/EVIDENCE.schema.json'))
for f in sorted(glob.glob('evidence/C??.json')):
    try: jsonschema.validate(json.load(open(f)),es)
    except Exception as e: ok=False; print('INVALID',f,str(e)[:300])
print('schemas ok' if ok else 'schema errors')
sys.exit(0 if ok else 1)
PY
