#!/usr/bin/env python3
"""Thorough tier: the static check itself (rulint -tier thorough: extra deep rules, CHA graph loaded), followed by the
checker's own both-ways validation: every seeded change recorded for this property under /verif/seeded is applied to a
scratch copy of /repo (never /repo itself) and the same check must report a VIOLATION there.  The self-validation is
recorded in the evidence file; it never changes the verdict on /repo (a seed whose patch no longer applies to the
evolved tree is skipped and listed)."""
import json, os, shutil, subprocess, sys, tempfile, glob

HERE = os.path.dirname(os.path.dirname(os.path.abspath(__file__)))

def main():
    pid = sys.argv[1]
    repo = os.environ.get("VERIF_REPO", "/repo")
    env = dict(os.environ, GOFLAGS="-mod=mod", GOPROXY="off", GOSUMDB="off", GOTOOLCHAIN="local")
    env.pop("GOWORK", None)
    rc = subprocess.call([os.path.join(HERE, "bin/rulint"), "-property", pid, "-tier", "thorough", "-repo", repo], env=env)
    evpath = os.path.join(HERE, "evidence", pid + ".json")
    results = []
    seeds = sorted(glob.glob(os.path.join(HERE, "seeded", pid + "-*")))
    for sd in seeds:
        patch = os.path.join(sd, "patch.rebased.diff")
        if not os.path.exists(patch):
            patch = os.path.join(sd, "patch.diff")
        if not os.path.exists(patch):
            continue
        scratch = tempfile.mkdtemp(prefix="rulint-selftest-")
        try:
            r2 = os.path.join(scratch, "repo"); v2 = os.path.join(scratch, "verif")
            shutil.copytree(repo, r2, ignore=shutil.ignore_patterns(".git"))
            os.makedirs(v2)
            shutil.copy(os.path.join(HERE, "known_findings.txt"), v2)
            ap = subprocess.run(["patch", "-p1", "--quiet", "-i", patch], cwd=r2, capture_output=True, text=True)
            if ap.returncode != 0:
                results.append({"seed": os.path.basename(sd), "outcome": "skipped: the patch no longer applies to the current tree"})
                continue
            e2 = dict(env, VERIF_DIR=v2)
            out = subprocess.run([os.path.join(HERE, "bin/rulint"), "-property", pid, "-tier", "quick", "-repo", r2], env=e2, capture_output=True, text=True)
            first = next((l for l in out.stdout.splitlines() if l.startswith("finding:")), "")
            outcome = {1: "detected", 0: "missed", 2: "undecided"}.get(out.returncode, "error")
            results.append({"seed": os.path.basename(sd), "outcome": outcome, "first_finding": first[:400]})
        finally:
            shutil.rmtree(scratch, ignore_errors=True)
    try:
        ev = json.load(open(evpath))
        ev["coverage"]["selftest"] = {
            "what": "each seeded change for this property (see /verif/seeded/<id>/meta.json) applied to a scratch copy of /repo; the quick check must report a VIOLATION there",
            "seeds": results,
            "detected": sum(1 for r in results if r["outcome"] == "detected"),
            "missed": [r["seed"] for r in results if r["outcome"] == "missed"],
        }
        json.dump(ev, open(evpath, "w"), indent=1)
    except Exception as e:
        print("note: could not record the self-validation:", e)
    for r in results:
        print("selftest", r["seed"], r["outcome"])
    sys.exit(rc)

if __name__ == "__main__":
    main()
