#!/bin/bash
# usage: tools/baseline_bg.sh <tag> -- snapshot /repo's working tree into a scratch copy, run the baseline suite there in the
# background, write the result to /tmp/bl-<tag>.out, remove the copy.
cd "$(dirname "$0")/.."
T=$1; D=/tmp/bl-$T
rm -rf $D; rsync -a --exclude .git /repo/ $D/; rm -f $D/crolt/my.db
( tools/baseline.sh $D > /tmp/bl-$T.out 2>&1; echo "exit=$?" >> /tmp/bl-$T.out; rm -rf $D ) &
