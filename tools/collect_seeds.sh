#!/bin/bash
# tools/collect_seeds.sh <Cxx> <worktree> : copy seed1/seed2 of a round-2 sub-agent worktree to seeded/<Cxx>-3, -4
# (demonstrations renamed *.go.txt so that nothing under /verif is built by accident), record the base commit,
# and remove the worktree.
set -e
id=$1; wt=$2
base=$(git -C "$wt" rev-parse --short HEAD)
k=${3:-3}
for s in seed1 seed2; do
  src=$wt/$s; dst=/verif/seeded/$id-$k
  if [ -f "$src/patch.diff" ]; then
    mkdir -p "$dst"
    for f in "$src"/*; do
      b=$(basename "$f")
      case "$b" in
        go.mod|go.sum) ;;
        *.go) cp "$f" "$dst/$b.txt" ;;
        *) [ -f "$f" ] && cp "$f" "$dst/$b" ;;
      esac
    done
    echo "$base" > "$dst/base"
    echo "collected $dst: $(ls $dst | tr '\n' ' ')"
  else
    echo "no patch in $src"
  fi
  k=$((k+1))
done
if [ -d "$wt/unchanged" ]; then
  u=/verif/seeded/UNCHANGED/$id/${ROUND:-round7}; mkdir -p "$u"
  for f in "$wt"/unchanged/*; do
    b=$(basename "$f")
    case "$b" in go.mod|go.sum) ;; *.go) cp "$f" "$u/$b.txt" ;; *) [ -f "$f" ] && cp "$f" "$u/$b" ;; esac
  done
fi
git -C /repo worktree remove --force "$wt"
rm -f "$wt"-* 2>/dev/null || true
