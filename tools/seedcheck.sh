#!/bin/bash
# usage: tools/seedcheck.sh <seed-dir> <property> [<property>...]
# Applies seeded/<dir>/patch.diff to /repo, runs the quick checks, prints verdicts, restores /repo.
cd "$(dirname "$0")/.."
SEED=$1; shift
if ! git -C /repo diff --quiet; then echo "/repo has uncommitted changes; refusing"; exit 2; fi
if ! git -C /repo apply --check "$PWD/$SEED/patch.diff" 2>/dev/null; then
  if git -C /repo apply --3way --check "$PWD/$SEED/patch.diff" 2>/dev/null; then :; else echo "$SEED: patch does not apply"; exit 2; fi
fi
git -C /repo apply "$PWD/$SEED/patch.diff" || { echo "$SEED: apply failed"; exit 2; }
for P in "$@"; do
  OUT=$(./check $P quick 2>&1); RC=$?
  V=$(echo "$OUT" | grep -c '^VIOLATION')
  echo "== $SEED $P exit=$RC violation_lines=$V"
  echo "$OUT" | grep -E '^(finding:|UNDECIDED)' | cut -c1-400 | head -8
done
git -C /repo checkout -- . ; git -C /repo status --short | head -3
# evidence files were rewritten against the mutated tree: regenerate them against the clean tree
for P in "$@"; do ./check $P quick >/dev/null 2>&1; done
