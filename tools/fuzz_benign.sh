#!/bin/bash
# usage: tools/fuzz_benign.sh [defer|call|all] -- mechanical behaviour-preserving edits applied to EVERY function of
# core, sys, cron, service, crolt and storage/bolt in a scratch copy of /repo:
#   defer : `defer func() {}()` as the first statement (results get spilled into slots, a recover block appears,
#           closures are renumbered)
#   call  : `func() {}()` as the first statement (an extra call of a rulio closure on every path)
#   log   : (package core only) `Log(DEBUG, nil, "fuzz")` as the first statement (an extra logging call, which takes
#           no lock for a nil context, in every function)
# Every check must stay silent (exit 0).  A VIOLATION or UNDECIDED here is a fragility of the checker.
cd "$(dirname "$0")/.."
export GOFLAGS=-mod=mod GOPROXY=off GOSUMDB=off GOTOOLCHAIN=local; unset GOWORK
MODES=${1:-all}; [ "$MODES" = all ] && MODES="defer call log"
RC=0
for M in $MODES; do
  SCR=$(mktemp -d /tmp/fzb.XXXXXX); mkdir -p $SCR/verif; rsync -a --exclude .git /repo/ $SCR/repo/; cp known_findings.txt $SCR/verif/
  FILES="core/*.go sys/*.go cron/*.go service/*.go crolt/*.go storage/bolt/*.go"
  case $M in defer) STMT='defer func() {}()';; call) STMT='func() {}()';; log) STMT='Log(DEBUG, nil, "fuzz")'; FILES="core/state_indexed.go core/state_linear.go core/state.go core/events.go core/query.go core/actions.go core/match.go core/patternindex.go core/termindex.go core/breaker.go core/javascript.go";; esac
  for f in $(cd $SCR/repo && ls $FILES | grep -v _test.go | grep -v "core/log.go" | grep -v "core/loggers.go"); do
    sed -i -E "/^func .*\{\$/a\\	$STMT" $SCR/repo/$f
  done
  if ! (cd $SCR/repo && go build ./... >/dev/null 2>&1); then echo "$M BUILD-FAILED"; RC=1; rm -rf $SCR; continue; fi
  LINE="$M"
  for P in $(./bin/rulint -list); do
    R=$(VERIF_DIR=$SCR/verif ./bin/rulint -property $P -repo $SCR/repo 2>&1); C=$?
    if [ $C != 0 ]; then LINE="$LINE $P:exit$C[$(echo "$R" | grep -E '^(finding:|UNDECIDED)' | head -1 | cut -c1-160)]"; RC=1; fi
  done
  echo "$LINE"
  rm -rf $SCR
done
exit $RC
