#!/bin/bash
# usage: tools/confirm_seeds.sh [seed-dir ...]
# For each seeded change: in a scratch worktree of /repo at the commit the change was written against,
#   (1) apply the patch, build, run the demonstration -> must FAIL,
#   (2) run the whole existing suite with the patch (without the demonstration) -> must match the baseline,
#   (3) revert the patch, run the demonstration -> must PASS.
# Writes seeded/<id>/meta.json.  The worktree is removed afterwards.
cd "$(dirname "$0")/.."
export GOFLAGS=-mod=mod GOPROXY=off GOSUMDB=off GOTOOLCHAIN=local; unset GOWORK
for S in ${@:-seeded/*}; do
  B=$(basename $S); P=${B%%-*}
  [ -f $S/patch.diff ] || continue
  case $P in C01|C06|C08|C10|C12|C15|C19|C20) BASE=eb11a34;; *) BASE=0693e24;; esac
  [ -f $S/base ] && BASE=$(cat $S/base)
  WT=/tmp/cs-$B
  git -C /repo worktree remove --force $WT >/dev/null 2>&1
  git -C /repo worktree add -q --detach $WT $BASE || { echo "$B: worktree failed"; continue; }
  DEMOS=""; RUNRE=""; PKGS=""
  for D in $S/*_test.go.txt; do
    PK=$(grep -m1 '^package ' $D | awk '{print $2}')
    case $PK in core|core_test) DIR=core;; sys|sys_test) DIR=sys;; service) DIR=service;; cron) DIR=cron;; main) DIR=crolt;; bolt) DIR=storage/bolt;; *) DIR=core;; esac
    cp $D $WT/$DIR/zz_seed_$(basename $D .txt)
    DEMOS="$DEMOS $DIR/zz_seed_$(basename $D .txt)"
    PKGS="$PKGS ./$DIR/"
    for T in $(grep -o '^func Test[A-Za-z0-9_]*' $D | awk '{print $2}'); do RUNRE="$RUNRE|$T"; done
  done
  RUNRE="^(${RUNRE#|})\$"
  PKGS=$(echo $PKGS | tr ' ' '\n' | sort -u | tr '\n' ' ')
  RACE=""; grep -qi -- "-race" $S/notes.md 2>/dev/null && RACE="-race"; [ -n "$NORACE" ] && RACE=""
  demo() { (cd $WT && rm -f crolt/my.db && timeout 600 go test -mod=mod -vet=off -count=1 $RACE -run "$RUNRE" $PKGS > /tmp/cs-$B.$1.log 2>&1; echo $?); }
  # (3) without the change
  R_WITHOUT=$(demo without)
  # (1) with the change
  (cd $WT && git apply $OLDPWD/$S/patch.diff) || { echo "$B: patch does not apply at $BASE"; git -C /repo worktree remove --force $WT; continue; }
  BUILD=$(cd $WT && go build ./... >/dev/null 2>&1; echo $?)
  R_WITH=$(demo with)
  # (2) suite with the change, without the demonstration
  for D in $DEMOS; do rm -f $WT/$D; done
  rm -f $WT/crolt/my.db
  SUITE=$(tools/baseline.sh $WT 2>&1 | tail -3 | tr '\n' ' ')
  SUITE_RC=0; echo "$SUITE" | grep -q "NOT PASSING" && SUITE_RC=1
  CONF=false; [ "$R_WITHOUT" = 0 ] && [ "$R_WITH" != 0 ] && [ "$BUILD" = 0 ] && [ "$SUITE_RC" = 0 ] && CONF=true
  NEEDS=$(grep -i -m3 -E 'needs|manifest|trigger' $S/notes.md 2>/dev/null | head -3 | tr '\n' ' ' | cut -c1-600)
  python3 - "$S" "$B" "$P" "$BASE" "$R_WITHOUT" "$R_WITH" "$BUILD" "$SUITE" "$CONF" "$RUNRE" "$PKGS" "$RACE" "$NEEDS" <<'PY'
import json,sys
S,B,P,BASE,RWO,RW,BUILD,SUITE,CONF,RUNRE,PKGS,RACE,NEEDS=sys.argv[1:14]
meta={"id":B,"breaks_property":P,"written_against_commit":BASE,
 "needs_to_manifest":NEEDS.strip(),
 "what_was_run":{
   "demo_cmd":"go test -mod=mod -vet=off -count=1 %s -run '%s' %s"%(RACE,RUNRE,PKGS.strip()),
   "demo_without_change_exit":int(RWO),"demo_with_change_exit":int(RW),
   "build_with_change_exit":int(BUILD),"suite_with_change":SUITE.strip()},
 "confirmed":CONF=="true"}
json.dump(meta,open(S+"/meta.json","w"),indent=1)
print(B,"confirmed" if CONF=="true" else "NOT CONFIRMED",RWO,RW,BUILD,SUITE.strip()[:80])
PY
  git -C /repo worktree remove --force $WT
done
git -C /repo worktree prune
