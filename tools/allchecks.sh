#!/bin/bash
# tools/allchecks.sh: run the quick check of every property against /repo; print one line per property; exit 1 if any is not 0.
cd "$(dirname "$0")/.."
rc=0
for i in 01 02 03 04 05 06 07 08 09 10 11 12 13 14 15 16 17 18 19 20; do
  ./check C$i quick > /tmp/chk-C$i.out 2>&1; c=$?
  [ $c = 0 ] || rc=1
  echo "C$i $c $(tail -1 /tmp/chk-C$i.out | cut -c1-100)"
done
exit $rc
