#!/bin/bash
# usage: tools/benign.sh -- applies every behaviour-preserving refactoring under /verif/benign to a scratch copy of /repo,
# checks that it builds, and requires EVERY check to stay silent (exit 0).  A VIOLATION here is a false alarm of the checker.
cd "$(dirname "$0")/.."
export GOFLAGS=-mod=mod GOPROXY=off GOSUMDB=off GOTOOLCHAIN=local; unset GOWORK
SCR=$(mktemp -d /tmp/bng.XXXXXX); RC=0
for S in benign/*; do
  rm -rf $SCR/repo $SCR/verif; mkdir -p $SCR/verif; rsync -a --exclude .git /repo/ $SCR/repo/; cp known_findings.txt $SCR/verif/
  (cd $SCR/repo && patch -p1 --quiet < "$OLDPWD/$S/patch.diff" >/dev/null 2>&1) || { echo "$(basename $S) PATCH-FAILED"; continue; }
  (cd $SCR/repo && go build ./... >/dev/null 2>&1) || { echo "$(basename $S) BUILD-FAILED"; RC=1; continue; }
  LINE="$(basename $S)"
  for P in $(./bin/rulint -list); do
    R=$(VERIF_DIR=$SCR/verif ./bin/rulint -property $P -repo $SCR/repo 2>&1); C=$?
    if [ $C != 0 ]; then LINE="$LINE $P:exit$C[$(echo "$R" | grep -E '^(finding:|UNDECIDED)' | head -1 | cut -c1-160)]"; RC=1; fi
  done
  echo "$LINE"
done
rm -rf $SCR; exit $RC
