#!/bin/bash
# usage: tools/twins.sh [seed-dir ...] -- every seeded change of round 7 comes with a twin: the same refactoring, feature or
# optimisation done right (twin.diff; the seed's demonstration passes with it, and so does the suite).  Each twin is
# applied to a scratch copy of /repo and EVERY check must stay silent.  A report here is a false alarm (or, where DESIGN
# says so, a limit of a rule that is named there).  Twins run in parallel (TWINS_JOBS, default 6).
cd "$(dirname "$0")/.."
export GOFLAGS=-mod=mod GOPROXY=off GOSUMDB=off GOTOOLCHAIN=local; unset GOWORK
one() {
  S=$1; SCR=$(mktemp -d /tmp/twn.XXXXXX)
  mkdir -p $SCR/verif; rsync -a --exclude .git /repo/ $SCR/repo/; cp known_findings.txt $SCR/verif/
  if ! (cd $SCR/repo && patch -p1 --quiet < "$OLDPWD/$S/twin.diff" >/dev/null 2>&1); then echo "$(basename $S) TWIN-PATCH-FAILED"; rm -rf $SCR; return; fi
  if ! (cd $SCR/repo && go build ./... >/dev/null 2>&1); then echo "$(basename $S) TWIN-BUILD-FAILED"; rm -rf $SCR; return; fi
  LINE="$(basename $S) twin"
  for P in $(./bin/rulint -list); do
    R=$(VERIF_DIR=$SCR/verif ./bin/rulint -property $P -repo $SCR/repo 2>&1); C=$?
    if [ $C != 0 ]; then LINE="$LINE $P:exit$C[$(echo "$R" | grep -E '^(finding:|UNDECIDED)' | head -1 | cut -c1-200)]"; fi
  done
  echo "$LINE"; rm -rf $SCR
}
export -f one
LIST=""; for S in ${@:-seeded/*}; do [ -f $S/twin.diff ] && LIST="$LIST $S"; done
OUT=$(echo $LIST | tr ' ' '\n' | xargs -P ${TWINS_JOBS:-6} -I{} bash -c 'one {}' | sort)
echo "$OUT"
echo "$OUT" | grep -q ':exit' && exit 1
exit 0
