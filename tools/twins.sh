#!/bin/bash
# usage: tools/twins.sh [seed-dir ...] -- every seeded change of round 7 comes with a twin: the same refactoring, feature or
# optimisation done right (twin.diff; the seed's demonstration passes with it, and so does the suite).  Each twin is
# applied to a scratch copy of /repo and EVERY check must stay silent.  A report here is a false alarm.
cd "$(dirname "$0")/.."
export GOFLAGS=-mod=mod GOPROXY=off GOSUMDB=off GOTOOLCHAIN=local; unset GOWORK
SCR=$(mktemp -d /tmp/twn.XXXXXX); RC=0
for S in ${@:-seeded/*}; do
  [ -f $S/twin.diff ] || continue
  rm -rf $SCR/repo $SCR/verif; mkdir -p $SCR/verif; rsync -a --exclude .git /repo/ $SCR/repo/; cp known_findings.txt $SCR/verif/
  (cd $SCR/repo && patch -p1 --quiet < "$OLDPWD/$S/twin.diff" >/dev/null 2>&1) || { echo "$(basename $S) TWIN-PATCH-FAILED"; continue; }
  (cd $SCR/repo && go build ./... >/dev/null 2>&1) || { echo "$(basename $S) TWIN-BUILD-FAILED"; continue; }
  LINE="$(basename $S) twin"
  for P in $(./bin/rulint -list); do
    R=$(VERIF_DIR=$SCR/verif ./bin/rulint -property $P -repo $SCR/repo 2>&1); C=$?
    if [ $C != 0 ]; then LINE="$LINE $P:exit$C[$(echo "$R" | grep -E '^(finding:|UNDECIDED)' | head -1 | cut -c1-200)]"; RC=1; fi
  done
  echo "$LINE"
done
rm -rf $SCR; exit $RC
