#!/bin/bash
# usage: tools/repro.sh <repro-file> <pkgdir> <run-regex> [go test flags] -- runs one run-time confirmation against a scratch copy of
# /repo's working tree AND against a scratch copy of HEAD (the tree before an uncommitted repair); prints both results.
cd "$(dirname "$0")/.."
export GOFLAGS=-mod=mod GOPROXY=off GOSUMDB=off GOTOOLCHAIN=local; unset GOWORK
F=$1; PKG=$2; RE=$3; shift 3
S=$(mktemp -d /tmp/rp.XXXXXX)
rsync -a --exclude .git /repo/ $S/work/
mkdir -p $S/head && git -C /repo archive HEAD | tar -x -C $S/head
for T in head work; do
  cp repro/$F $S/$T/$PKG/zz_$F
  (cd $S/$T && rm -f crolt/my.db && timeout 600 go test -mod=mod -vet=off -count=1 "$@" -run "$RE" ./$PKG/ 2>&1 | grep -E '^(---|ok|FAIL|panic|fatal|\s+[a-z_0-9]+\.go:[0-9]+:)' | head -${REPRO_LINES:-12} | sed "s/^/[$T] /")
done
rm -rf $S
