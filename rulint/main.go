package main

// rulint: repository-specific static checker for Comcast/rulio.
//
//   rulint -property C19 -tier quick|thorough [-repo /repo]
//
// Every run re-loads and re-type-checks /repo's working tree (go/packages), builds SSA and the VTA
// call graph, resolves the rule anchors through go/types, runs the rules registered for the
// property, matches violations against /verif/known_findings.txt and writes
// /verif/evidence/<id>.json.  Exit 0 = all obligations discharged (known findings listed),
// 1 = VIOLATION, 2 = UNDECIDED (unresolved anchor / below floor / load error).

import (
	"flag"
	"fmt"
	"os"
	"runtime/debug"
	"sort"
	"strconv"
)

type ruleFn func(w *World, r *Report)

type propertySpec struct {
	ID      string
	Explain string
	Assume  []string
	Rules   []ruleFn
	// thorough-only rules
	Thorough []ruleFn
	// extra packages to load (fixtures), relative to the rulint source dir
	NeedCHA bool
}

var registry = map[string]*propertySpec{}

func register(p *propertySpec) { registry[p.ID] = p }

func main() {
	prop := flag.String("property", "", "property id (C01..C20)")
	tier := flag.String("tier", "", "quick|thorough (default: $VERIF_TIER or quick)")
	repo := flag.String("repo", "/repo", "repository working tree to analyse")
	replay := flag.String("replay", "", "print a findings file and re-run its property")
	list := flag.Bool("list", false, "list properties and rules")
	dbg := flag.String("debug", "", "developer aids: lockinfer")
	flag.Parse()
	if *dbg == "lockinfer" {
		debugLockInfer(*repo)
		return
	}
	if *dbg == "globals" {
		debugGlobals(*repo)
		return
	}
	if *dbg == "deadparams" {
		debugDeadParams(*repo)
		return
	}
	if *dbg == "loops" {
		debugLoops(*repo)
		return
	}
	if *dbg == "panics" {
		debugPanics(*repo)
		return
	}

	if *list {
		var ids []string
		for id := range registry {
			ids = append(ids, id)
		}
		sort.Strings(ids)
		for _, id := range ids {
			fmt.Println(id)
		}
		return
	}
	if *replay != "" {
		b, err := os.ReadFile(*replay)
		if err != nil {
			fmt.Println("cannot read", *replay, err)
			os.Exit(2)
		}
		os.Stdout.Write(b)
		fmt.Println()
		// derive the property id from the file content
		id := ""
		for i := 0; i+3 <= len(b); i++ {
			if b[i] == 'C' && i+3 <= len(b) && b[i+1] >= '0' && b[i+1] <= '9' && b[i+2] >= '0' && b[i+2] <= '9' {
				id = string(b[i : i+3])
				break
			}
		}
		if id == "" {
			os.Exit(2)
		}
		*prop = id
	}
	if *tier == "" {
		*tier = os.Getenv("VERIF_TIER")
	}
	if *tier != "thorough" {
		*tier = "quick"
	}
	seed := int64(0)
	if s := os.Getenv("VERIF_SEED"); s != "" {
		if n, err := strconv.ParseInt(s, 10, 64); err == nil {
			seed = n
		}
	}
	spec := registry[*prop]
	if spec == nil {
		fmt.Printf("UNDECIDED property=%s unknown property\n", *prop)
		os.Exit(2)
	}
	os.Exit(run(spec, *tier, seed, *repo))
}

func run(spec *propertySpec, tier string, seed int64, repo string) (code int) {
	r := newReport(spec.ID, tier, seed)
	r.Explain = spec.Explain
	r.Assume = spec.Assume
	defer func() {
		if x := recover(); x != nil {
			if u, ok := x.(Undecided); ok {
				fmt.Printf("UNDECIDED property=%s %s\n", spec.ID, u.Msg)
			} else {
				fmt.Printf("UNDECIDED property=%s analysis panic: %v\n%s\n", spec.ID, x, debug.Stack())
			}
			code = 2
		}
	}()
	w := loadWorld(repo, tier == "thorough" || spec.NeedCHA)
	r.stat("packages_loaded", len(w.Pkgs))
	r.stat("rulio_packages", len(w.ByRel))
	r.stat("rulio_functions", len(w.Funcs))
	r.stat("callgraph_nodes", len(w.CG.Nodes))
	for _, rf := range spec.Rules {
		rf(w, r)
	}
	if tier == "thorough" {
		for _, rf := range spec.Thorough {
			rf(w, r)
		}
	}
	return r.finish()
}
