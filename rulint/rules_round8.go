package main

// rules_round8.go: clauses added for the seeds of round 8.

import (
	"go/token"
	"go/types"

	"golang.org/x/tools/go/ssa"
)

// cacheGenNoted is clause (1a) of CACHE-GEN: the invalidation count a publication into the parsed-rule cache is
// compared with was noted before the rules were read out of the state.  Reported: a method F of the state in which a
// call that (transitively) reads the fact map can be followed by the note of the count, and the note by the
// publication with no read of the fact map in between.
func cacheGenNoted(w *World, r *Report, nt *types.Named, owner, key string) {
	factField := "IdToFact"
	if owner == "core.LinearState" {
		factField = "Facts"
	}
	isGenVal := func(v ssa.Value) bool {
		if isFieldLoad(v, owner, "cacheGen") {
			return true
		}
		if c, ok := v.(*ssa.Call); ok && c.Common().StaticCallee() != nil && c.Common().StaticCallee().Pkg != nil && c.Common().StaticCallee().Pkg.Pkg.Path() == "sync/atomic" && len(c.Common().Args) > 0 {
			_, f, _, okf := fieldOf(c.Common().Args[0])
			return okf && f == "cacheGen"
		}
		return false
	}
	isPublish := func(x ssa.Instruction) bool {
		if mu, ok := x.(*ssa.MapUpdate); ok && isFieldLoad(mu.Map, owner, "cachedRules") {
			return true
		}
		if c := callOf(x); c != nil && c.StaticCallee() != nil && c.StaticCallee().Signature.Recv() != nil && len(c.Args) > 0 {
			switch c.StaticCallee().Name() {
			case "Store", "LoadOrStore":
				_, f, _, ok := fieldOf(c.Args[0])
				return ok && f == "cachedRules"
			}
		}
		return false
	}
	methods := map[*ssa.Function]bool{}
	for _, g := range w.MethodsOf(nt) {
		if !isTestFile(w, g) {
			methods[g] = true
		}
	}
	// getters of the count: methods that load it, change nothing and publish nothing
	getter := map[*ssa.Function]bool{}
	for g := range methods {
		loads, other := false, false
		allInstrs(g, func(x ssa.Instruction) {
			if v, ok := x.(ssa.Value); ok && isGenVal(v) {
				loads = true
			}
			if isPublish(x) {
				other = true
			}
			if _, ok := storesToField(x, owner, "cacheGen"); ok {
				other = true
			}
		})
		if loads && !other && g.Signature.Results().Len() == 1 {
			getter[g] = true
		}
	}
	isNote := func(v ssa.Value) bool {
		if isGenVal(v) {
			return true
		}
		if c, ok := v.(*ssa.Call); ok && c.Common().StaticCallee() != nil && getter[c.Common().StaticCallee()] {
			return true
		}
		return false
	}
	// functions that (transitively, through static calls) read the fact map
	memo := map[*ssa.Function]int{} // 1 = in progress / no, 2 = yes
	var touches func(g *ssa.Function, d int) bool
	touches = func(g *ssa.Function, d int) bool {
		if g == nil || g.Blocks == nil || d > 8 {
			return false
		}
		if m, ok := memo[g]; ok {
			return m == 2
		}
		memo[g] = 1
		yes := false
		allInstrs(g, func(x ssa.Instruction) {
			if yes {
				return
			}
			if v, ok := x.(ssa.Value); ok {
				if n, f, _, okf := fieldOf(v); okf && typeKey(n) == owner && f == factField {
					yes = true
					return
				}
			}
			if c := callOf(x); c != nil && c.StaticCallee() != nil && touches(c.StaticCallee(), d+1) {
				yes = true
			}
		})
		if yes {
			memo[g] = 2
		}
		return yes
	}
	type site struct {
		f *ssa.Function
		p ssa.Instruction
		a ssa.Value
	}
	var sites []site
	for g := range methods {
		hasPub := false
		allInstrs(g, func(x ssa.Instruction) {
			if isPublish(x) {
				hasPub = true
			}
		})
		if !hasPub {
			continue
		}
		allInstrs(g, func(x ssa.Instruction) {
			b, ok := x.(*ssa.BinOp)
			if !ok || (b.Op != token.EQL && b.Op != token.NEQ) {
				return
			}
			var o ssa.Value
			switch {
			case isGenVal(resolveSpill(b.X)):
				o = b.Y
			case isGenVal(resolveSpill(b.Y)):
				o = b.X
			default:
				return
			}
			if pa, ok := resolveSpill(o).(*ssa.Parameter); ok {
				idx := -1
				for k, q := range g.Params {
					if q == pa {
						idx = k
					}
				}
				if idx < 0 {
					return
				}
				for f := range methods {
					allInstrs(f, func(y ssa.Instruction) {
						if c := callOf(y); c != nil && c.StaticCallee() == g && idx < len(c.Args) {
							sites = append(sites, site{f, y, c.Args[idx]})
						}
					})
				}
				return
			}
			allInstrs(g, func(y ssa.Instruction) {
				if isPublish(y) {
					sites = append(sites, site{g, y, o})
				}
			})
		})
	}
	k := key + " noted"
	if len(sites) == 0 {
		r.exempt("CACHE-GEN", k, "", "no publication that is compared with a noted count found: shape not recognised, not decided")
		return
	}
	bad := false
	for _, s := range sites {
		var notes []ssa.Instruction
		dependsOn(s.a, func(v ssa.Value) bool {
			if isNote(v) {
				if in, ok := v.(ssa.Instruction); ok && in.Parent() == s.f {
					notes = append(notes, in)
				}
			}
			return false
		})
		isRead := func(x ssa.Instruction) bool {
			if x == s.p {
				return false
			}
			for _, n := range notes {
				if x == n {
					return false
				}
			}
			c := callOf(x)
			return c != nil && c.StaticCallee() != nil && touches(c.StaticCallee(), 0)
		}
		for _, n := range notes {
			var after ssa.Instruction
			allInstrs(s.f, func(c ssa.Instruction) {
				if after == nil && isRead(c) && reachable(s.f, c, n) {
					after = c
				}
			})
			if after == nil {
				continue
			}
			if h, _ := reach(s.f, n, func(in ssa.Instruction) bool { return in == s.p }, isRead, nil); h != nil {
				bad = true
				r.violation("CACHE-GEN", k, w.PosOf(n), "fn="+s.f.String()+": the invalidation count is noted here, after the rules were read out of the state at "+w.PosOf(after)+", and the publication at "+w.PosOf(s.p)+" is compared with it: a replacement of the rule that fits between the read and this note is not noticed, and the replaced rule is cached for good")
			}
		}
	}
	if !bad {
		r.ok("CACHE-GEN", k, "", itoa(len(sites))+" publication site(s): the count compared with was noted before the state was read")
	}
}

// hookReplaceEvery is the "every" clause of HOOK-REPLACE (seed C15-15): the look-up of what is replaced is not skipped
// for some kinds of facts.  Every success return of the add hook lies behind ScheduleEvent (the job is replaced) or
// behind State.Get (what is stored under the id was looked at) — except on the edges on which the hook is told that
// the location is being loaded (parameter `loading`) or has no cron (`cronner == nil`), where nothing is replaced.
func hookReplaceEvery(w *World, r *Report, fn *ssa.Function, key string, passes func(ssa.Instruction) bool) {
	isLoadingOrNoCron := func(v ssa.Value) bool {
		v = resolveSpill(v)
		if p, ok := v.(*ssa.Parameter); ok {
			if b, ok := p.Type().Underlying().(*types.Basic); ok && b.Kind() == types.Bool {
				return true
			}
		}
		if fv, ok := v.(*ssa.FreeVar); ok {
			return namedOf(fv.Type()) != nil && namedOf(fv.Type()).Obj().Name() == "Cronner"
		}
		if u, ok := v.(*ssa.UnOp); ok && u.Op == token.MUL {
			if fv, ok := u.X.(*ssa.FreeVar); ok {
				if pt, ok := fv.Type().(*types.Pointer); ok {
					return namedOf(pt.Elem()) != nil && namedOf(pt.Elem()).Obj().Name() == "Cronner"
				}
			}
		}
		return false
	}
	ef := func(from *ssa.BasicBlock, succ int) bool {
		if len(from.Instrs) == 0 {
			return true
		}
		ifi, ok := from.Instrs[len(from.Instrs)-1].(*ssa.If)
		if !ok {
			return true
		}
		ct, ok := decodeIf(ifi)
		if !ok || !isLoadingOrNoCron(ct.V) {
			return true
		}
		// the edge on which `loading` is true / the cron is nil is not a path on which something is replaced
		switch ct.TrueWhen {
		case "true", "nil":
			return succ != 0
		case "false", "nonnil":
			return succ != 1
		}
		return true
	}
	k := key + " every"
	hit, path := reach(fn, nil, func(in ssa.Instruction) bool {
		_, isRet := in.(*ssa.Return)
		return isRet && isSuccessReturnPS(in)
	}, passes, ef)
	if hit != nil {
		r.violation("HOOK-REPLACE", k, w.PosOf(hit), "the add hook can return success for a fact that is added to a live location without having scheduled a job for it and without having looked up what it replaces (State.Get): a scheduled rule overwritten by such a fact keeps its job", blockPathString(w, path)...)
	} else {
		r.ok("HOOK-REPLACE", k, w.Pos(fn.Pos()), "every success return for an addition to a live location lies behind ScheduleEvent or the look-up of what is replaced")
	}
}
