package main

// term.go: TERM engine — every recursive cycle of rulio functions must fall into an accepted class.

import (
	"go/constant"
	"go/types"
	"sort"
	"strings"

	"golang.org/x/tools/go/callgraph"
	"golang.org/x/tools/go/ssa"
)

type scc struct {
	Fns  []*ssa.Function
	Name string
}

// rulioSCCs: strongly connected components (with at least one cycle) of the VTA call graph restricted to rulio
// non-test functions.
func rulioSCCs(w *World) []scc {
	nodes := map[*ssa.Function]*callgraph.Node{}
	for _, fn := range w.Funcs {
		if isTestFile(w, fn) {
			continue
		}
		if n := w.CG.Nodes[fn]; n != nil {
			nodes[fn] = n
		}
	}
	succ := func(fn *ssa.Function) []*ssa.Function {
		var out []*ssa.Function
		seen := map[*ssa.Function]bool{}
		for _, e := range nodes[fn].Out {
			c := e.Callee.Func
			if _, ok := nodes[c]; ok && !seen[c] {
				seen[c] = true
				out = append(out, c)
			}
		}
		sort.Slice(out, func(i, j int) bool { return out[i].String() < out[j].String() })
		return out
	}
	index := 0
	idx := map[*ssa.Function]int{}
	low := map[*ssa.Function]int{}
	on := map[*ssa.Function]bool{}
	var stack []*ssa.Function
	var out []scc
	var fns []*ssa.Function
	for fn := range nodes {
		fns = append(fns, fn)
	}
	sort.Slice(fns, func(i, j int) bool { return fns[i].String() < fns[j].String() })
	var strong func(v *ssa.Function)
	strong = func(v *ssa.Function) {
		idx[v] = index
		low[v] = index
		index++
		stack = append(stack, v)
		on[v] = true
		for _, x := range succ(v) {
			if _, seen := idx[x]; !seen {
				strong(x)
				if low[x] < low[v] {
					low[v] = low[x]
				}
			} else if on[x] && idx[x] < low[v] {
				low[v] = idx[x]
			}
		}
		if low[v] == idx[v] {
			var comp []*ssa.Function
			for {
				x := stack[len(stack)-1]
				stack = stack[:len(stack)-1]
				on[x] = false
				comp = append(comp, x)
				if x == v {
					break
				}
			}
			cyc := len(comp) > 1
			if !cyc {
				for _, x := range succ(v) {
					if x == v {
						cyc = true
					}
				}
			}
			if cyc {
				sort.Slice(comp, func(i, j int) bool { return comp[i].String() < comp[j].String() })
				var names []string
				for _, f := range comp {
					names = append(names, fname(f))
				}
				out = append(out, scc{comp, strings.Join(names, ",")})
			}
		}
	}
	for _, fn := range fns {
		if _, seen := idx[fn]; !seen {
			strong(fn)
		}
	}
	sort.Slice(out, func(i, j int) bool { return out[i].Name < out[j].Name })
	return out
}

// projectionDerived: v is built from strict projections of a parameter of fn: it depends on a parameter
// through at least one projection step (map/slice element, field, range element, tail slice, type assertion
// of those), using only projection / assembly operations and static calls (interface invokes and calls of
// function values break the chain: their result is not a sub-structure of the input).
func projectionDerived(fn *ssa.Function, v ssa.Value) bool {
	return projectionDerivedFrom(fn, v, nil)
}

// projectionDerivedFrom: as projectionDerived, with only the given parameter counting as the root (nil: any
// parameter or free variable).
func projectionDerivedFrom(fn *ssa.Function, v ssa.Value, only *ssa.Parameter) bool {
	type res struct{ reachesParam, projected bool }
	memo := map[ssa.Value]res{}
	var rec func(v ssa.Value, d int) res
	rec = func(v ssa.Value, d int) res {
		if v == nil || d > 40 {
			return res{}
		}
		if r, ok := memo[v]; ok {
			return r
		}
		memo[v] = res{}
		var out res
		merge := func(r res, proj bool) {
			if r.reachesParam {
				out.reachesParam = true
				if r.projected || proj {
					out.projected = true
				}
			}
		}
		switch x := v.(type) {
		case *ssa.Parameter:
			out = res{only == nil || x == only, false}
		case *ssa.FreeVar:
			out = res{only == nil, false}
		case *ssa.Lookup:
			merge(rec(x.X, d+1), true)
		case *ssa.Index:
			merge(rec(x.X, d+1), true)
		case *ssa.IndexAddr:
			merge(rec(x.X, d+1), true)
		case *ssa.Field:
			merge(rec(x.X, d+1), true)
		case *ssa.FieldAddr:
			merge(rec(x.X, d+1), true)
		case *ssa.Next:
			merge(rec(x.Iter, d+1), true)
		case *ssa.Range:
			merge(rec(x.X, d+1), false)
		case *ssa.Extract:
			merge(rec(x.Tuple, d+1), false)
		case *ssa.TypeAssert:
			merge(rec(x.X, d+1), false)
		case *ssa.ChangeType:
			// a re-typing step: a value that was just found to be of a named type T (a type-switch arm) is converted to
			// T's unnamed underlying type and handed on.  That can happen once per value — the converted value is not a
			// T any more — so (size, is-a-T) still decreases lexicographically.
			retype := false
			src := x.X
			if ex, ok := src.(*ssa.Extract); ok && ex.Index == 0 {
				src = ex.Tuple
			}
			if ta, ok := src.(*ssa.TypeAssert); ok {
				if nt, isNamed := ta.AssertedType.(*types.Named); isNamed {
					if _, stillNamed := x.Type().(*types.Named); !stillNamed && types.Identical(nt.Underlying(), x.Type().Underlying()) {
						retype = true
					}
				}
			}
			merge(rec(x.X, d+1), retype)
		case *ssa.ChangeInterface:
			merge(rec(x.X, d+1), false)
		case *ssa.MakeInterface:
			merge(rec(x.X, d+1), false)
		case *ssa.Convert:
			merge(rec(x.X, d+1), false)
		case *ssa.Slice:
			strict := false
			if c, ok := x.Low.(*ssa.Const); ok && c.Value != nil && c.Value.Kind() == constant.Int && c.Int64() >= 1 {
				strict = true
			}
			merge(rec(x.X, d+1), strict)
		case *ssa.UnOp:
			merge(rec(x.X, d+1), false)
		case *ssa.Phi:
			for _, e := range x.Edges {
				merge(rec(e, d+1), false)
			}
		case *ssa.Alloc:
			for _, ref := range *x.Referrers() {
				switch y := ref.(type) {
				case *ssa.Store:
					if y.Addr == x {
						merge(rec(y.Val, d+1), false)
					}
				case *ssa.IndexAddr, *ssa.FieldAddr:
					sub := ref.(ssa.Value)
					if sr := sub.Referrers(); sr != nil {
						for _, z := range *sr {
							if st, ok := z.(*ssa.Store); ok && st.Addr == sub {
								merge(rec(st.Val, d+1), false)
							}
						}
					}
				}
			}
		case *ssa.Call:
			c := x.Common()
			if c.IsInvoke() {
				break
			}
			if _, isBuiltin := c.Value.(*ssa.Builtin); !isBuiltin && c.StaticCallee() == nil {
				break
			}
			for _, a := range c.Args {
				merge(rec(a, d+1), false)
			}
		}
		memo[v] = out
		return out
	}
	r := rec(v, 0)
	return r.reachesParam && r.projected
}
