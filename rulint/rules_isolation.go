package main

// rules_isolation.go: C09 — locations are isolated except through declared parents (GLOBALS; ANC via TERM; NS-ARG; CRON-KEY).

import (
	"go/types"
	"go/token"
	"sort"
	"strings"

	"golang.org/x/tools/go/ssa"
)

// globalWriters: package-level variables of core/sys/cron/service that are written outside package initialisation,
// with the functions that write them (directly, through a map/slice update, or through a receiver-mutating method).
func globalWriters(w *World) map[string][]string {
	out := map[string]map[string]bool{}
	add := func(g *ssa.Global, fn *ssa.Function) {
		k := globalKey(g)
		if out[k] == nil {
			out[k] = map[string]bool{}
		}
		out[k][fname(fn)] = true
	}
	e := newLocksetEngine(w, nil)
	for _, fn := range w.Funcs {
		if isTestFile(w, fn) {
			continue
		}
		p := w.RelPkg(fn)
		if p != "core" && p != "sys" && p != "cron" && p != "service" {
			continue
		}
		if fn.Name() == "init" && fn.Signature.Recv() == nil {
			continue
		}
		allInstrs(fn, func(in ssa.Instruction) {
			switch x := in.(type) {
			case *ssa.Store:
				root := addrRoot(x.Addr)
				if g, ok := root.(*ssa.Global); ok && inScopePkg(g) {
					add(g, fn)
				}
				// a field of the object a pointer-typed global points to
				if u, ok := root.(*ssa.UnOp); ok && u.Op == token.MUL && root != x.Addr {
					if g, ok := u.X.(*ssa.Global); ok && inScopePkg(g) {
						add(g, fn)
					}
				}
			case *ssa.UnOp:
				if x.Op != token.MUL {
					return
				}
				g, ok := x.X.(*ssa.Global)
				if !ok || !inScopePkg(g) {
					return
				}
				if e.classifyLoaded(x, "read") == "write" {
					add(g, fn)
				}
			}
		})
	}
	res := map[string][]string{}
	for k, m := range out {
		for f := range m {
			res[k] = append(res[k], f)
		}
		sort.Strings(res[k])
	}
	return res
}

func inScopePkg(g *ssa.Global) bool {
	if g.Pkg == nil {
		return false
	}
	p := strings.TrimPrefix(strings.TrimPrefix(g.Pkg.Pkg.Path(), modPath), "/")
	return p == "core" || p == "sys" || p == "cron" || p == "service"
}

// globalsAllowed: written package-level variables and why that is compatible with isolation between locations.
var globalsAllowed = map[string]string{
	"core.timerHistories":        "timer statistics keyed by timer name, written under core.timersMutex (lock discipline decided by LOCKSET-SYS under C11); not location state",
	"core.tooManyTimersWarning":  "a one-shot warning flag written under core.timersMutex next to timerHistories",
	"core.SystemParameters":      "process-wide configuration, written by NewSystem and the /api/sys/* operator endpoints only, never on a per-location path",
	"core.JavascriptTestValue":   "test hook set by the /api/sys/util/setJavascriptTestValue operator endpoint",
	"core.SystemParameterHooks":  "start-up registration of parameter hooks",
	"core.slurpClient":           "created once by a package initialiser",
}

func ruleGlobals(w *World, r *Report) {
	r.Rule("GLOBALS", "who-may-write: every package-level variable of core, sys, cron and service that is written outside package initialisation is in a frozen table of process-wide, synchronised or configuration-only state; a new mutable global written on a per-location path is shared state between locations", 4)
	gw := globalWriters(w)
	var names []string
	for k := range gw {
		names = append(names, k)
	}
	sort.Strings(names)
	for _, k := range names {
		key := "global=" + k
		if reason, ok := globalsAllowed[k]; ok {
			r.exempt("GLOBALS", key, "", reason+" (writers: "+strings.Join(gw[k], ", ")+")")
		} else if why := inputFreeMemo(w, k, gw[k]); why != "" {
			r.ok("GLOBALS", key, "", why)
		} else {
			r.violation("GLOBALS", key, "", "package-level variable written by "+strings.Join(gw[k], ", ")+" is not in the table of allowed process-wide state: mutable state shared by all locations")
		}
	}
	// per-writer check for the configuration globals: not written from the location API
	for _, k := range []string{"core.SystemParameters", "core.JavascriptTestValue"} {
		for _, f := range gw[k] {
			okWriter := f == "(*service.Service).ProcessRequest" || f == "sys.NewSystem" || strings.HasPrefix(f, "core.SetParameters") || strings.HasPrefix(f, "core.Parameters")
			key := "global=" + k + " writer=" + f
			if okWriter {
				r.ok("GLOBALS", key, "", "configuration writer")
			} else {
				r.violation("GLOBALS", key, "", "process-wide configuration is written from "+f+", which is not a configuration entry point")
			}
		}
	}
}

// inputFreeMemo: a package-level variable outside the table is still no channel between locations when every function
// that writes it has no inputs at all (no receiver, no parameters, no captured variables: what it computes cannot depend
// on which location asked) and writes it with a mutex held that is part of the variable itself.
func inputFreeMemo(w *World, global string, writers []string) string {
	byName := map[string]*ssa.Function{}
	for _, fn := range w.Funcs {
		byName[fname(fn)] = fn
	}
	for _, name := range writers {
		fn := byName[name]
		if fn == nil || len(fn.Params) > 0 || len(fn.FreeVars) > 0 || fn.Signature.Recv() != nil {
			return ""
		}
		isOwn := func(v ssa.Value) bool {
			root := addrRoot(v)
			g, ok := root.(*ssa.Global)
			if !ok || g.Pkg == nil {
				return false
			}
			return strings.TrimPrefix(strings.TrimPrefix(g.Pkg.Pkg.Path(), modPath), "/")+"."+g.Name() == global
		}
		var locks []ssa.Instruction
		allInstrs(fn, func(in ssa.Instruction) {
			c := callOf(in)
			if c == nil || c.StaticCallee() == nil || len(c.Args) == 0 {
				return
			}
			if _, isDefer := in.(*ssa.Defer); isDefer {
				return
			}
			f := c.StaticCallee()
			if f.Pkg != nil && f.Pkg.Pkg.Path() == "sync" && f.Name() == "Lock" && isOwn(c.Args[0]) {
				locks = append(locks, in)
			}
		})
		bad := false
		allInstrs(fn, func(in ssa.Instruction) {
			st, ok := in.(*ssa.Store)
			if !ok || !isOwn(st.Addr) {
				return
			}
			held := false
			for _, l := range locks {
				if instrDominates(l, in) {
					held = true
				}
			}
			if !held {
				bad = true
			}
		})
		if bad || len(locks) == 0 {
			return ""
		}
		// what it hands out is shared by everybody who asks: no caller writes through it
		if ptrResult(fn) {
			if where := sharedResultWritten(w, fn); where != "" {
				return ""
			}
		}
	}
	return "written only by " + strings.Join(writers, ", ") + ", which has no inputs (what it keeps cannot depend on the location that asked) and writes with the variable's own mutex held"
}

func ptrResult(fn *ssa.Function) bool {
	rs := fn.Signature.Results()
	for i := 0; i < rs.Len(); i++ {
		switch rs.At(i).Type().Underlying().(type) {
		case *types.Pointer, *types.Map, *types.Slice:
			return true
		}
	}
	return false
}

// sharedResultWritten: does a caller of fn write through what fn handed out — a store through the pointer, a callee
// that modifies that argument, or a decoder (json.Unmarshal, Decoder.Decode) let loose on a struct the pointer was put
// into (encoding/json decodes into the struct a pointer field already points to)?
func sharedResultWritten(w *World, fn *ssa.Function) string {
	mod := newModEngine(w, nil)
	where := ""
	for _, e := range w.Callers(fn) {
		caller := e.Caller.Func
		if isTestFile(w, caller) || len(caller.Blocks) == 0 {
			continue
		}
		res, ok := e.Site.(*ssa.Call)
		if !ok {
			continue
		}
		tainted := map[ssa.Value]bool{res: true}
		holders := map[ssa.Value]bool{} // allocations a field of which holds the pointer
		for changed := true; changed; {
			changed = false
			allInstrs(caller, func(in ssa.Instruction) {
				switch x := in.(type) {
				case *ssa.Store:
					if tainted[x.Val] {
						if root := addrRoot(x.Addr); root != nil && !holders[root] {
							holders[root], changed = true, true
						}
					}
				case *ssa.Phi:
					for _, ed := range x.Edges {
						if tainted[ed] && !tainted[x] {
							tainted[x], changed = true, true
						}
					}
				case *ssa.Extract:
					if tainted[x.Tuple] && !tainted[x] {
						tainted[x], changed = true, true
					}
				}
			})
		}
		allInstrs(caller, func(in ssa.Instruction) {
			if where != "" {
				return
			}
			switch x := in.(type) {
			case *ssa.Store:
				if root := addrRoot(x.Addr); root != x.Addr && tainted[root] {
					where = w.PosOf(in)
				}
			case ssa.CallInstruction:
				c := x.Common()
				f := c.StaticCallee()
				for i, arg := range c.Args {
					a := arg
					if mi, isMI := a.(*ssa.MakeInterface); isMI {
						a = mi.X
					}
					if f != nil && f.Pkg != nil && f.Pkg.Pkg.Path() == "encoding/json" && (f.Name() == "Unmarshal" || f.Name() == "Decode") && (holders[addrRoot(a)] || tainted[a]) {
						where = w.PosOf(in)
					}
					if f != nil && w.IsRulio(f) && tainted[a] && i < len(f.Params) {
						if m, _ := mod.mutatesParam(f, i); m {
							where = w.PosOf(in)
						}
					}
				}
			}
		})
	}
	return where
}

func init() {
	register(&propertySpec{
		ID:      "C09",
		Explain: "Static rules for isolation between locations: the ancestor walk is bounded (visited set), storage calls use the state's own namespace, the shared cron keys jobs by location, and the set of written package-level variables is frozen. Does not decide non-interference of results, that exactly the transitive parents' facts are seen, or immediacy of parent changes.",
		Rules:   []ruleFn{ruleTerm("C09"), ruleAncSelfLast, ruleAncPath, ruleAncRestore, ruleNsArg, ruleCronKey("C09"), ruleGlobals, ruleParentsValue("C09"), ruleCopyEmpty("C09"), ruleAncOnce("C09"), ruleCtxEntry, ruleCtxScript, ruleCroltEscape("C09"), ruleCtxPerGoroutine("C09"), ruleCronKeyInj("C09"), ruleStateFresh("C09")},
	})
}

// ANC-SELF-LAST: the ancestor walk applies the callback to the location itself after all its ancestors.
func ruleAncSelfLast(w *World, r *Report) {
	r.Rule("ANC-SELF-LAST", "the ancestor walk applies its callback to the starting location itself after every ancestor (no recursive call is reachable after the callback was applied to the receiver, and every success return lies behind that application — except the silent skip of a location the walk has visited already, see ANC-ONCE): the per-location search functions re-point the request context at the location they visit, so the location that received the request must be visited last for its actions to run in its own context", 1)
	var walk *ssa.Function
	for _, name := range []string{"doAncestors", "DoAncestors"} {
		if f := w.TryMethod("core", "Location", name); f != nil {
			self := false
			allInstrs(f, func(in ssa.Instruction) {
				if c := callOf(in); c != nil && c.StaticCallee() == f {
					self = true
				}
			})
			if self {
				walk = f
			}
		}
	}
	if walk == nil {
		undecided("ANC-SELF-LAST: recursive ancestor walk not found")
	}
	recv := walk.Params[0]
	var cbParam *ssa.Parameter
	for _, p := range walk.Params {
		if _, ok := p.Type().Underlying().(interface{ Params() interface{} }); ok {
			_ = ok
		}
		if strings.HasPrefix(p.Type().String(), "func(") {
			cbParam = p
		}
	}
	if cbParam == nil {
		undecided("ANC-SELF-LAST: callback parameter not found")
	}
	isSelfCall := func(in ssa.Instruction) bool {
		c := callOf(in)
		return c != nil && valueIs(c.Value, cbParam) && len(c.Args) == 1 && c.Args[0] == ssa.Value(recv)
	}
	isRec := func(in ssa.Instruction) bool {
		c := callOf(in)
		if c == nil || c.StaticCallee() != walk {
			return false
		}
		_, isDefer := in.(*ssa.Defer)
		return !isDefer
	}
	key := "fn=" + fname(walk)
	var selfCalls []ssa.Instruction
	allInstrs(walk, func(in ssa.Instruction) {
		if isSelfCall(in) {
			selfCalls = append(selfCalls, in)
		}
	})
	if len(selfCalls) == 0 {
		r.violation("ANC-SELF-LAST", key, w.Pos(walk.Pos()), "the walk never applies the callback to the location itself")
		return
	}
	for _, sc := range selfCalls {
		if h, _ := reach(walk, sc, isRec, nil, nil); h != nil {
			r.violation("ANC-SELF-LAST", key, w.PosOf(h), "an ancestor is visited after the location itself: the request context is left pointing at an ancestor, and the rule's actions run (and write) there")
			return
		}
	}
	// a location that the visited set (ANC-ONCE) says was visited already is skipped silently: those edges are not walked
	if h, _ := reachPSA(walk, nil, isSuccessReturn, isSelfCall, edgeFilterOf(ancVisitedEdges(walk))); h != nil {
		// a success return that never visited the location itself: only legitimate when nothing was visited at all
		r.violation("ANC-SELF-LAST", key, w.PosOf(h), "the walk can succeed without applying the callback to the location itself")
		return
	}
	r.ok("ANC-SELF-LAST", key, w.PosOf(selfCalls[0]), "ancestors first, the location itself last")
}
