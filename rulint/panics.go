package main

// panics.go: PANIC engine — may-panic sites: unchecked type assertions, explicit panics, constant index into
// possibly empty strings/slices.

import (
	"go/constant"
	"go/token"
	"go/types"
	"sort"
	"strings"

	"golang.org/x/tools/go/ssa"
	"golang.org/x/tools/go/ssa/ssautil"
)

// ---- type-set data-flow for one interface value ------------------------------------------------

type tset struct {
	top bool
	in  map[string]bool // when !top: possible dynamic types
	ex  map[string]bool // when top: types excluded
}

func tsTop() tset { return tset{top: true, ex: map[string]bool{}} }
func (t tset) clone() tset {
	c := tset{top: t.top, in: map[string]bool{}, ex: map[string]bool{}}
	for k := range t.in {
		c.in[k] = true
	}
	for k := range t.ex {
		c.ex[k] = true
	}
	return c
}
func (t tset) key() string {
	var ks []string
	for k := range t.in {
		ks = append(ks, "+"+k)
	}
	for k := range t.ex {
		ks = append(ks, "-"+k)
	}
	sort.Strings(ks)
	if t.top {
		return "T" + strings.Join(ks, "")
	}
	return "F" + strings.Join(ks, "")
}
func tsJoin(a, b tset) tset {
	if a.top && b.top {
		c := tsTop()
		for k := range a.ex {
			if b.ex[k] {
				c.ex[k] = true
			}
		}
		return c
	}
	if a.top {
		c := a.clone()
		for k := range b.in {
			delete(c.ex, k)
		}
		return c
	}
	if b.top {
		return tsJoin(b, a)
	}
	c := a.clone()
	for k := range b.in {
		c.in[k] = true
	}
	return c
}
func (t tset) assertOK(ty string) tset {
	if t.top {
		if t.ex[ty] {
			return tset{in: map[string]bool{}, ex: map[string]bool{}} // unreachable
		}
		return tset{in: map[string]bool{ty: true}, ex: map[string]bool{}}
	}
	c := tset{in: map[string]bool{}, ex: map[string]bool{}}
	if t.in[ty] {
		c.in[ty] = true
	}
	return c
}
func (t tset) assertFail(ty string) tset {
	c := t.clone()
	if c.top {
		c.ex[ty] = true
	} else {
		delete(c.in, ty)
	}
	return c
}

// canonValue: loads of a local variable slot that is stored exactly once are the same value.
func canonValue(v ssa.Value) ssa.Value {
	u, ok := v.(*ssa.UnOp)
	if !ok || u.Op != token.MUL {
		return v
	}
	a, ok := u.X.(*ssa.Alloc)
	if !ok {
		return v
	}
	n := 0
	for _, ref := range *a.Referrers() {
		if st, ok := ref.(*ssa.Store); ok && st.Addr == a {
			n++
		}
	}
	if n == 1 {
		return a
	}
	return v
}

// typeSetsFor computes, for interface value x in fn, the possible dynamic types at the entry of each block.
func typeSetsFor(fn *ssa.Function, x ssa.Value) map[*ssa.BasicBlock]tset {
	in := map[*ssa.BasicBlock]tset{}
	if len(fn.Blocks) == 0 {
		return in
	}
	in[fn.Blocks[0]] = tsTop()
	work := []*ssa.BasicBlock{fn.Blocks[0]}
	for len(work) > 0 {
		b := work[0]
		work = work[1:]
		cur := in[b]
		// the block may end in an If on the ok result of a commaok assert of x
		outs := make([]tset, len(b.Succs))
		for i := range outs {
			outs[i] = cur
		}
		if n := len(b.Instrs); n > 0 {
			if ifi, ok := b.Instrs[n-1].(*ssa.If); ok {
				if ct, ok := decodeIf(ifi); ok {
					if ex, ok := ct.V.(*ssa.Extract); ok && ex.Index == 1 {
						if ta, ok := ex.Tuple.(*ssa.TypeAssert); ok && ta.CommaOk && canonValue(ta.X) == x {
							if _, isIface := ta.AssertedType.Underlying().(*types.Interface); !isIface {
								ty := types.TypeString(ta.AssertedType, nil)
								okIdx := 0
								if ct.TrueWhen == "false" {
									okIdx = 1
								}
								outs[okIdx] = cur.assertOK(ty)
								outs[1-okIdx] = cur.assertFail(ty)
							}
						}
					}
				}
			}
		}
		for i, s := range b.Succs {
			old, seen := in[s]
			var nw tset
			if !seen {
				nw = outs[i]
			} else {
				nw = tsJoin(old, outs[i])
			}
			if !seen || nw.key() != old.key() {
				in[s] = nw
				work = append(work, s)
			}
		}
	}
	return in
}

type panicSite struct {
	Fn   *ssa.Function
	In   ssa.Instruction
	Kind string // assert | panic | index
	Desc string
}

// uncheckedAsserts lists the single-result type assertions of fn whose operand is not known to have the asserted type.
func uncheckedAsserts(fn *ssa.Function) []panicSite {
	var out []panicSite
	cache := map[ssa.Value]map[*ssa.BasicBlock]tset{}
	allInstrs(fn, func(in ssa.Instruction) {
		ta, ok := in.(*ssa.TypeAssert)
		if !ok || ta.CommaOk {
			return
		}
		if _, isIface := ta.AssertedType.Underlying().(*types.Interface); isIface {
			// asserting to an interface type: still panics when the value does not implement it
		}
		ty := types.TypeString(ta.AssertedType, nil)
		cx := canonValue(ta.X)
		ts, ok := cache[cx]
		if !ok {
			ts = typeSetsFor(fn, cx)
			cache[cx] = ts
		}
		cur, reach := ts[ta.Block()]
		if !reach {
			return
		}
		if !cur.top {
			safe := true
			for k := range cur.in {
				if k != ty {
					safe = false
				}
			}
			if safe {
				return
			}
		}
		if typedContainerLoad(fn, ta) {
			return
		}
		out = append(out, panicSite{fn, in, "assert", "unchecked type assertion to " + types.TypeString(ta.AssertedType, func(p *types.Package) string { return p.Name() })})
	})
	return out
}

// explicitPanics lists calls of the builtin panic that are not re-panics of a recovered value.
func explicitPanics(fn *ssa.Function) []panicSite {
	var out []panicSite
	allInstrs(fn, func(in ssa.Instruction) {
		p, ok := in.(*ssa.Panic)
		if !ok {
			return
		}
		if !p.Pos().IsValid() {
			return // emitted by the SSA builder (e.g. the impossible default of a blocking select)
		}
		// re-panic of a recovered value
		if dependsOn(p.X, func(v ssa.Value) bool {
			c, ok := v.(*ssa.Call)
			if !ok {
				return false
			}
			b, ok := c.Common().Value.(*ssa.Builtin)
			return ok && b.Name() == "recover"
		}) {
			return
		}
		out = append(out, panicSite{fn, in, "panic", "explicit panic"})
	})
	return out
}

// constIndexSites: x[k] with a constant k on a string or slice with no dominating test of len(x).
func constIndexSites(fn *ssa.Function) []panicSite {
	var out []panicSite
	lenTested := func(x ssa.Value, at ssa.Instruction) bool {
		for _, b := range fn.Blocks {
			if len(b.Instrs) == 0 {
				continue
			}
			ifi, ok := b.Instrs[len(b.Instrs)-1].(*ssa.If)
			if !ok || !b.Dominates(at.Block()) || b == at.Block() {
				continue
			}
			if dependsOn(ifi.Cond, func(v ssa.Value) bool {
				c, ok := v.(*ssa.Call)
				if !ok {
					return false
				}
				bi, ok := c.Common().Value.(*ssa.Builtin)
				return ok && bi.Name() == "len" && len(c.Common().Args) == 1 && sameUnderlying(c.Common().Args[0], x)
			}) {
				return true
			}
		}
		return false
	}
	allInstrs(fn, func(in ssa.Instruction) {
		var x, idx ssa.Value
		switch y := in.(type) {
		case *ssa.Lookup:
			if b, ok := y.X.Type().Underlying().(*types.Basic); ok && b.Info()&types.IsString != 0 {
				x, idx = y.X, y.Index
			}
		case *ssa.IndexAddr:
			if _, ok := y.X.Type().Underlying().(*types.Slice); ok {
				x, idx = y.X, y.Index
			}
		case *ssa.Index:
			if b, ok := y.X.Type().Underlying().(*types.Basic); ok && b.Info()&types.IsString != 0 {
				x, idx = y.X, y.Index
			}
		case *ssa.Slice:
			// s[a:b] with constant bounds on a string
			if b, ok := y.X.Type().Underlying().(*types.Basic); ok && b.Info()&types.IsString != 0 {
				if c, ok := y.High.(*ssa.Const); ok && c.Value != nil && c.Value.Kind() == constant.Int && c.Int64() > 0 {
					x, idx = y.X, y.High
				}
			}
		}
		if x == nil {
			return
		}
		c, ok := idx.(*ssa.Const)
		if !ok || c.Value == nil || c.Value.Kind() != constant.Int {
			return
		}
		// locally built slices (variadic argument arrays, literals) are fine
		if sl, ok := x.(*ssa.Slice); ok {
			if _, isAlloc := sl.X.(*ssa.Alloc); isAlloc {
				return
			}
		}
		if _, ok := x.(*ssa.Const); ok {
			return
		}
		if madeWithLenAbove(x, c.Int64()) {
			return
		}
		if lenTested(x, in) {
			return
		}
		out = append(out, panicSite{fn, in, "index", "constant index " + c.Value.String() + " into a " + x.Type().String() + " whose length is not tested"})
	})
	return out
}

// madeWithLenAbove: x is (a load of a slot holding) make([]T, n) with constant n > idx.
func madeWithLenAbove(x ssa.Value, idx int64) bool {
	check := func(v ssa.Value) bool {
		if sl, ok := v.(*ssa.Slice); ok {
			// make with a constant size is compiled to new [n]T; slice[:n]
			if a, ok := sl.X.(*ssa.Alloc); ok {
				if pt, ok := a.Type().(*types.Pointer); ok {
					if arr, ok := pt.Elem().Underlying().(*types.Array); ok && arr.Len() > idx {
						return true
					}
				}
			}
			return false
		}
		ms, ok := v.(*ssa.MakeSlice)
		if !ok {
			return false
		}
		c, ok := ms.Len.(*ssa.Const)
		return ok && c.Value != nil && c.Int64() > idx
	}
	if check(x) {
		return true
	}
	if u, ok := x.(*ssa.UnOp); ok && u.Op == token.MUL {
		// load of a field / slot: every store into it in this function is such a make
		var addr ssa.Value = u.X
		n, all := 0, true
		if fa, ok := addr.(*ssa.FieldAddr); ok {
			fn := u.Parent()
			allInstrs(fn, func(in ssa.Instruction) {
				if st, ok := in.(*ssa.Store); ok {
					if fb, ok := st.Addr.(*ssa.FieldAddr); ok && fb.Field == fa.Field && canonValue(fb.X) == canonValue(fa.X) {
						n++
						if !check(st.Val) {
							all = false
						}
					}
				}
			})
		}
		return n > 0 && all
	}
	return false
}

func sameUnderlying(a, b ssa.Value) bool {
	if a == b {
		return true
	}
	// two loads of the same field of the same object
	if ua, ok := a.(*ssa.UnOp); ok && ua.Op == token.MUL {
		if ub, ok := b.(*ssa.UnOp); ok && ub.Op == token.MUL {
			if fa, ok := ua.X.(*ssa.FieldAddr); ok {
				if fb, ok := ub.X.(*ssa.FieldAddr); ok && fa.Field == fb.Field && canonValue(fa.X) == canonValue(fb.X) {
					return true
				}
			}
		}
	}
	strip := func(v ssa.Value) ssa.Value {
		for {
			switch x := v.(type) {
			case *ssa.ChangeType:
				v = x.X
			case *ssa.Convert:
				v = x.X
			default:
				return v
			}
		}
	}
	return strip(a) == strip(b)
}

var _ = token.ADD

// typedContainerLoad: the asserted value comes out of a sync.Map or a sync.Pool that is a package-level variable (or a
// field), and everything the program puts into that container — every Store / LoadOrStore / Put on the same variable,
// and the Pool's New — has the asserted type statically.  Then the assertion cannot fail.
func typedContainerLoad(fn *ssa.Function, ta *ssa.TypeAssert) bool {
	var container ssa.Value
	dependsOn(ta.X, func(v ssa.Value) bool {
		c, ok := v.(*ssa.Call)
		if !ok || c.Common().StaticCallee() == nil || c.Common().StaticCallee().Pkg == nil || c.Common().StaticCallee().Pkg.Pkg.Path() != "sync" || len(c.Common().Args) == 0 {
			return false
		}
		switch c.Common().StaticCallee().Name() {
		case "Load", "LoadOrStore", "Get", "LoadAndDelete":
			container = c.Common().Args[0]
			return true
		}
		return false
	})
	// the container: a package-level variable, or a field of a named struct (`s.cachedRules`: every `cachedRules` of that type)
	var same func(v ssa.Value) bool
	if g, ok := container.(*ssa.Global); ok {
		same = func(v ssa.Value) bool { return v == ssa.Value(g) }
	} else if cn, cf, _, ok := fieldOf(container); ok {
		same = func(v ssa.Value) bool {
			n2, f2, _, ok2 := fieldOf(v)
			return ok2 && n2 == cn && f2 == cf
		}
	} else {
		return false
	}
	want := ta.AssertedType
	okAll, puts := true, 0
	check := func(v ssa.Value) {
		puts++
		if mi, isMI := v.(*ssa.MakeInterface); isMI && types.Identical(mi.X.Type(), want) {
			return
		}
		okAll = false
	}
	for f := range allFunctionsOf(fn.Prog) {
		if len(f.Blocks) == 0 {
			continue
		}
		allInstrs(f, func(in ssa.Instruction) {
			switch x := in.(type) {
			case *ssa.Call:
				c := x.Common()
				if c.StaticCallee() == nil || c.StaticCallee().Pkg == nil || c.StaticCallee().Pkg.Pkg.Path() != "sync" || len(c.Args) == 0 || !same(c.Args[0]) {
					return
				}
				switch c.StaticCallee().Name() {
				case "Store":
					if len(c.Args) == 3 {
						check(c.Args[2])
					}
				case "LoadOrStore":
					if len(c.Args) == 3 {
						check(c.Args[2])
					}
				case "Put":
					if len(c.Args) == 2 {
						check(c.Args[1])
					}
				case "Swap", "CompareAndSwap":
					okAll = false
				}
			case *ssa.Store:
				// sync.Pool{New: func() interface{} {...}}: the initialiser stores the New function into the variable
				if fa, isFA := x.Addr.(*ssa.FieldAddr); isFA && same(fa.X) {
					if newFn, isFn := x.Val.(*ssa.Function); isFn {
						allInstrs(newFn, func(y ssa.Instruction) {
							if ret, isRet := y.(*ssa.Return); isRet && len(ret.Results) == 1 {
								check(ret.Results[0])
							}
						})
					} else if mc, isMC := x.Val.(*ssa.MakeClosure); isMC {
						allInstrs(mc.Fn.(*ssa.Function), func(y ssa.Instruction) {
							if ret, isRet := y.(*ssa.Return); isRet && len(ret.Results) == 1 {
								check(ret.Results[0])
							}
						})
					}
				}
			}
		})
	}
	return okAll && puts > 0
}

var allFuncsMemo = map[*ssa.Program]map[*ssa.Function]bool{}

func allFunctionsOf(p *ssa.Program) map[*ssa.Function]bool {
	if m, ok := allFuncsMemo[p]; ok {
		return m
	}
	m := ssautil.AllFunctions(p)
	allFuncsMemo[p] = m
	return m
}
