package main

func init() {
	register(&propertySpec{
		ID:      "C12",
		Explain: "Static lock-set (guarded-by) analysis over SSA + VTA call graph of /repo's current tree: decides the data-race-freedom and lock-discipline precondition of C12 on every static path (all interleavings at once), not linearizability. See rule docs.",
		Assume: []string{
			"lock identity is by (struct type, mutex field); two instances of one type are not distinguished",
			"Context.isPrivileged is assumed false when it steers slock/sunlock (the privilege is only granted while the write lock is held: rule PRIV-HELD)",
			"objects are unshared while being constructed (accesses through a pointer freshly allocated in the same function are exempt)",
		},
		Rules: []ruleFn{ruleActionBindingsOwn("C12"), ruleLocksetStates, ruleStateSections, ruleAtomSection, rulePrivPair, ruleCtxShare, ruleLockOrder("C12"), ruleSharedWrite, ruleCacheInv, ruleCacheEvict("C12"), ruleLockReentry("C12"), rulePrivLocal("C12"), ruleCtxPerGoroutine("C12"), ruleCacheGen("C12"), ruleMarshalPure("C12"), ruleHookAtomic, rulePurgeRecheck("C12")},
		Thorough: []ruleFn{ruleLocksetDeep},
	})
	register(&propertySpec{ID: "C11", Explain: "Static lock-set analysis of the state that different locations share (see rule docs); decides the data-race-freedom precondition of C11 only.", Rules: []ruleFn{ruleGlobals, ruleLocksetSystem, ruleCtxPerRequest, ruleAtomicOnly, ruleLockOrder("C11"), ruleAppendClobber("C11"), ruleTimelineOrder("C11"), rulePendingPair("C11"), ruleSharedToJS, ruleCtxPerGoroutine("C11"), ruleCronKeyInj("C11"), ruleMemoKey("C11")}})
	register(&propertySpec{ID: "C16", Explain: "Static lock-set, pairing, transaction-scope and key-provenance rules for the in-memory cron and the Bolt-backed crolt service. Does not decide exactly-once firing, no-fire-after-Rem while a recurring job is running, or restart consistency (history properties).", Rules: []ruleFn{ruleJobFlagLocked, ruleLocksetCron, ruleCronUniq, ruleCronDue, ruleTxScope("crolt"), ruleTxAtomic, ruleTxSibling, ruleKeyFixedWidth, rulePartitionAgree, ruleAppendClobber("C16"), ruleBoltErrIn("crolt", 4), ruleCronRearm("C16"), ruleTimelineOrder("C16"), ruleTimeParseArgs("C16"), ruleCroltURL("C16"), ruleAtUTC, ruleCronNextZero("C16"), ruleTimeIdxOrder, ruleCroltEscape("C16"), ruleCronInflight("C16"), ruleJitterNonneg, ruleCroltStatus("C16"), ruleCronLimitFirst("C16"), ruleLockSend("C16"), ruleCronStartArms, ruleCroltTidOwn, ruleUnmarshalFresh, ruleLoopvarGo("C16")}})
	register(&propertySpec{ID: "C20", Explain: "Static gate / lock-set / provenance rules for limits.", Rules: []ruleFn{ruleGateCap, ruleLocksetBreakers, ruleBrkAtomic, ruleBrkSlide, ruleBrkAttempted, ruleThrottle, ruleHTTPBreaker, ruleCtorParam("C20"), ruleBrkWindow, ruleBrkAdjust, ruleBrkInterval("C20")}})
}
