package main

// rules_access.go: C19 (access controls), the GATE-ENABLED clause of C10 and GATE-CAP of C20.

import (
	"go/token"
	"go/types"
	"strings"

	"golang.org/x/tools/go/ssa"
)

var mutatingState = map[string]bool{"Add": true, "Rem": true, "Clear": true, "Delete": true}
var revealingState = map[string]bool{"Get": true, "Search": true, "FindRules": true, "FindCachedRules": true}

// exemptions: one named construct each, with the reason.  Keys are rule|construct.
var gateExemptions = map[string]string{
	"GATE-W|entry=(*core.Location).SetProp": "trusted-embedder API: it is how the embedder installs the keys themselves (sys.markLocationCreated); who may call it is decided by GATE-UNTRUSTED",
	"GATE-W|entry=(*core.Location).RemProp": "trusted-embedder API (see SetProp); who may call it is decided by GATE-UNTRUSTED",
	"GATE-E|entry=(*core.Location).SetProp": "trusted-embedder API used to write the `enabled` property itself; who may call it is decided by GATE-UNTRUSTED",
	"GATE-E|entry=(*core.Location).RemProp": "trusted-embedder API (see SetProp)",
	"GATE-R|entry=(*core.Location).Have":    "returns only a boolean (existence of an id), no fact or rule content; dead code while core.AlwaysHaveRule is true",
	"GATE-E|entry=(*core.Location).Have":    "helper of RuleEnabled/EnableRule, which test Enabled before calling it; returns only a boolean",
}

// ungatedByDesign: exported Location methods the path rules do not descend into; each is reported
// once as an exempt entry and its callers are decided by GATE-UNTRUSTED (SetProp/RemProp) or by
// the reason given (Have).
func ungatedByDesign(rule string, fn *ssa.Function) bool {
	_, ok := gateExemptions[rule+"|entry="+fname(fn)]
	return ok
}

func locGates(a *locAnchors) (write, read, enabled gateSpec) {
	write = gateSpec{Name: "CheckWrite", FailWhen: "nonnil", Idx: -1, IsGate: func(c *ssa.CallCommon) bool { return a.isLocMethod(c, "CheckWrite") }}
	read = gateSpec{Name: "CheckRead", FailWhen: "nonnil", Idx: -1, IsGate: func(c *ssa.CallCommon) bool { return a.isLocMethod(c, "CheckRead") }}
	enabled = gateSpec{Name: "Enabled", FailWhen: "false", Idx: -1, IsGate: func(c *ssa.CallCommon) bool { return a.isLocMethod(c, "Enabled") }}
	return
}

// propReader: the primitive that reads one property fact by canonical id; the gates themselves
// are built on it, so its State.Get is not a revealing sink.
func isPropReader(fn *ssa.Function) bool {
	fn = outermost(fn)
	return fn.Pkg != nil && fn.Pkg.Pkg.Path() == modPath+"/core" && fn.Signature.Recv() == nil && fn.Name() == "getPropFromFact"
}

func takesStateParam(a *locAnchors, fn *ssa.Function) bool {
	if fn.Signature.Recv() != nil {
		return false
	}
	ps := fn.Signature.Params()
	for i := 0; i < ps.Len(); i++ {
		if types.Identical(ps.At(i).Type(), a.State) {
			return true
		}
	}
	return false
}

// runGateRule evaluates one gate kind over all entry points.
func runGateRule(w *World, r *Report, a *locAnchors, rule string, gates []gateSpec, sinks map[string]bool, doc string, floor int) {
	runGateRuleSink(w, r, a, rule, gates, func(in ssa.Instruction) (string, bool) {
		if isPropReader(in.Parent()) {
			return "", false
		}
		return a.stateCall(in, sinks)
	}, doc, floor)
}

// runGateRuleSink: as runGateRule, with an arbitrary sink predicate.
func runGateRuleSink(w *World, r *Report, a *locAnchors, rule string, gates []gateSpec, isSink func(in ssa.Instruction) (string, bool), doc string, floor int) {
	r.Rule(rule, doc, floor)
	skip := func(fn *ssa.Function) bool {
		return a.inStateLayer(fn) || isTestFile(w, fn) || ungatedByDesign(rule, outermost(fn))
	}
	g := newGateEngine(w, gates, isSink, skip)
	// helpers that wrap the check (refactorings) count as the check; the gates themselves and the entries are not wrappers
	wrappers := g.deriveWrappers(func(fn *ssa.Function) bool {
		if fn.Object() != nil && fn.Object().Exported() {
			return false // an exported entry that checks and then acts is an entry, not a check
		}
		return w.RelPkg(fn) == "core" && !a.inStateLayer(fn)
	})
	if len(wrappers) > 0 {
		r.Notes = append(r.Notes, rule+": derived gate wrappers: "+strings.Join(wrappers, ", "))
	}
	g.solve()
	for _, m := range a.exportedLocationMethods() {
		if ungatedByDesign(rule, m) {
			r.exempt(rule, "entry="+fname(m), w.Pos(m.Pos()), gateExemptions[rule+"|entry="+fname(m)])
		}
	}

	isLocEntry := map[*ssa.Function]bool{}
	locEntryNames := map[string]bool{}
	for _, m := range a.exportedLocationMethods() {
		isLocEntry[m] = true
		locEntryNames[fname(m)] = true
	}
	report := func(fn *ssa.Function, kind string) {
		key := "entry=" + fname(fn)
		if !g.reaches(fn) {
			return
		}
		e := g.exposes(fn)
		if !e.exposed {
			r.ok(rule, key, w.Pos(fn.Pos()), kind+": every path to a sink passes "+gateNames(gates))
			return
		}
		if !isLocEntry[fn] {
			// a root whose witness runs through an exported Location method is the same defect as
			// that method's own obligation: report it there only
			for _, step := range e.chain[1:] {
				if locEntryNames[step] {
					r.ok(rule, key, w.Pos(fn.Pos()), kind+": reaches state only through exported Location methods, each decided as its own entry (witness passes "+step+")")
					return
				}
			}
		}
		r.violation(rule, key, e.where, kind+" reaches a sink without passing "+gateNames(gates), e.chain...)
	}
	for _, m := range a.exportedLocationMethods() {
		report(m, "exported Location method")
	}
	for _, f := range a.roots() {
		if f.Signature.Recv() != nil && namedOf(f.Signature.Recv().Type()) == a.Location {
			continue // already handled or unexported Location helper without callers
		}
		if takesStateParam(a, f) {
			continue // below the Location layer: the caller already holds a core.State
		}
		if a.inStateLayer(f) {
			continue
		}
		report(f, "root (no rulio caller; reflectively or externally invoked)")
	}
	// whose gate: a check asked of one location does not answer for another
	if a.Location != nil && len(gates) > 0 {
		sr := rule + "-SUBJECT"
		r.Rule(sr, "where a call on a location (a parameter or a captured variable of the function) that reaches state ungated by itself lies behind "+gateNames(gates[:1])+" (or a derived wrapper), the check was asked of that same location and not of another one the function has at hand: in the walk over a location's ancestors `loc` is where the walk started and `parent` is what is being read, and every location on the way answers for itself", 0)
		oks, bad := g.subjectMismatches(a.Location)
		for _, m := range bad {
			r.violation(sr, "fn="+fname(m.fn)+" call="+m.call, m.where, "this call lies behind "+m.gate+" only, and that was asked of another location than the one the call is made on: the location that is read never answers for itself")
		}
		if len(bad) == 0 {
			r.ok(sr, "calls="+itoa(oks), "", itoa(oks)+" gated call(s) on a named location, each behind a check asked of that location")
		}
	}
	r.stat(rule+".functions_analysed", g.fnsAnalysed)
	r.stat(rule+".ungated_sink_sites", g.sitesSeen)
	r.stat(rule+".gate_tests", g.gateTestsSeen)
	// thorough tier: second opinion with the CHA call graph (more edges, some infeasible): entries that are exposed only
	// under CHA are recorded as information, never as violations
	if w.CHA != nil && r.Tier == "thorough" {
		vta := w.CG
		w.CG = w.CHA
		g2 := newGateEngine(w, gates, isSink, skip)
		g2.solve()
		extra := 0
		check := func(fn *ssa.Function) {
			if e2 := g2.exposes(fn); e2.exposed && !g.exposes(fn).exposed && !ungatedByDesign(rule, fn) {
				extra++
				r.info(rule, "cha-only entry="+fname(fn), e2.where, "exposed only under the CHA call graph (probably an infeasible dispatch): "+strings.Join(e2.chain, " -> "))
			}
		}
		for _, m := range a.exportedLocationMethods() {
			check(m)
		}
		w.CG = vta
		r.stat(rule+".cha_only_exposures", extra)
	}
}

func gateNames(gs []gateSpec) string {
	var n []string
	for _, g := range gs {
		n = append(n, g.Name)
	}
	return strings.Join(n, "/")
}

func ruleGateW(w *World, r *Report) {
	a := newLocAnchors(w)
	wr, _, _ := locGates(a)
	runGateRule(w, r, a, "GATE-W", []gateSpec{wr}, mutatingState,
		"every path from an exported Location method or a root (JS callback, goroutine, service/cron closure) to State.Add/Rem/Clear/Delete passes the success edge of Location.CheckWrite; a sink before the check or a refusing branch that falls through is a violation", 8)
}

func ruleGateR(w *World, r *Report) {
	a := newLocAnchors(w)
	_, rd, _ := locGates(a)
	runGateRule(w, r, a, "GATE-R", []gateSpec{rd}, revealingState,
		"every path from an entry to State.Get/Search/FindRules/FindCachedRules (outside the property reader the gates are built on) passes the success edge of Location.CheckRead", 6)
}

func ruleGateE(w *World, r *Report) {
	a := newLocAnchors(w)
	_, _, en := locGates(a)
	all := map[string]bool{}
	for k := range mutatingState {
		all[k] = true
	}
	for k := range revealingState {
		all[k] = true
	}
	runGateRule(w, r, a, "GATE-E", []gateSpec{en}, all,
		"every path from an entry to a State access passes the true edge of Location.Enabled (a disabled location refuses before touching state)", 12)
}

// GATE-UNTRUSTED: the ungated exported mutators are called only from the allow-listed trusted sites.
func ruleGateUntrusted(w *World, r *Report) {
	r.Rule("GATE-UNTRUSTED", "who-may-call: Location.SetProp / RemProp (ungated by design) are called only from sys.markLocationCreated, and there only under the success of that location's CheckWrite and Enabled (control dependence): the caller is reachable from outside (System.CreateLocation, /api/loc/admin/create), and a location can be protected or switched off before it is `created`", 2)
	allowed := map[string]bool{"sys.markLocationCreated": true}
	for _, name := range []string{"SetProp", "RemProp"} {
		m := w.TryMethod("core", "Location", name)
		if m == nil {
			r.info("GATE-UNTRUSTED", "callee=core.(*Location)."+name, "", "method no longer exists")
			continue
		}
		n := 0
		for _, e := range w.Callers(m) {
			c := e.Caller.Func
			if isTestFile(w, c) || c.Synthetic != "" {
				continue // promoted-method wrappers are not call sites
			}
			n++
			key := "callee=core.(*Location)." + name + " caller=" + fname(c)
			if allowed[fname(outermost(c))] {
				// the trusted caller is reachable from outside (CreateLocation, /api/loc/admin/create): it asks the
				// location's own gates before it uses the ungated mutator
				a := newLocAnchors(w)
				site := e.Site.(ssa.Instruction)
				cc := e.Site.Common()
				recv := cc.Args[0]
				gated := func(method, failWhen string) bool {
					return controlDependsOn(c, site, func(v ssa.Value) bool {
						call, ok := v.(*ssa.Call)
						if !ok || !a.isLocMethod(call.Common(), method) || len(call.Common().Args) == 0 {
							return false
						}
						return valueIs(call.Common().Args[0], recv)
					})
				}
				if gated("CheckWrite", "nonnil") && gated("Enabled", "false") {
					r.ok("GATE-UNTRUSTED", key, w.PosOf(e.Site), "allow-listed trusted caller, which passes CheckWrite and Enabled of that location first")
				} else {
					r.violation("GATE-UNTRUSTED", key, w.PosOf(e.Site), "the allow-listed caller uses the ungated mutator without having passed the location's CheckWrite and Enabled: CreateLocation (reachable as /api/loc/admin/create) writes the creation marker into a write-protected or disabled location for a caller without the key")
				}
			} else {
				r.violation("GATE-UNTRUSTED", key, w.PosOf(e.Site), "ungated mutator called from a site that is not allow-listed")
			}
		}
		if n == 0 {
			r.ok("GATE-UNTRUSTED", "callee=core.(*Location)."+name+" caller=<none>", w.Pos(m.Pos()), "no rulio caller")
		}
	}
}

// GATE-KEYS: CheckWrite compares the caller's WriteKey with the `writeKey` property (and CheckRead
// ReadKey / `readKey`), and consults the read-only flag; SubContext copies both keys.
func ruleGateKeys(w *World, r *Report) {
	r.Rule("GATE-KEYS", "provenance inside the gates: CheckWrite compares Context.WriteKey with property `writeKey` and tests IsReadOnly; CheckRead compares Context.ReadKey with `readKey`; Context.SubContext copies ReadKey and WriteKey", 5)
	check := func(method, field, prop string) {
		fn := w.Method("core", "Location", method)
		key := "gate=core.(*Location)." + method + " field=" + field + " prop=" + prop
		// find a comparison ctx.<field> == <value derived from GetPropString(..., prop, ...)>
		found := false
		allInstrs(fn, func(in ssa.Instruction) {
			b, ok := in.(*ssa.BinOp)
			if !ok || b.Op != token.EQL {
				return
			}
			for _, pair := range [][2]ssa.Value{{b.X, b.Y}, {b.Y, b.X}} {
				n, f, _, ok := loadedField(pair[0])
				if !ok || n.Obj().Name() != "Context" || f != field {
					continue
				}
				isCall := func(c *ssa.Call) bool {
					o := calleeObj(c.Common())
					if !(isPkgFunc(o, modPath+"/core", "GetPropString")) {
						return false
					}
					for _, a := range c.Common().Args {
						if s, ok := constString(a); ok && s == prop {
							return true
						}
					}
					return false
				}
				if derivesFromCall(pair[1], isCall, 0) {
					found = true
				}
			}
		})
		if found {
			r.ok("GATE-KEYS", key, w.Pos(fn.Pos()), "compares the caller's "+field+" with property "+prop)
		} else {
			r.violation("GATE-KEYS", key, w.Pos(fn.Pos()), "no comparison of Context."+field+" with the value of property `"+prop+"`")
		}
	}
	check("CheckWrite", "WriteKey", "writeKey")
	check("CheckRead", "ReadKey", "readKey")

	// read-only test in CheckWrite
	{
		fn := w.Method("core", "Location", "CheckWrite")
		a := newLocAnchors(w)
		ro := gateSpec{Name: "IsReadOnly", FailWhen: "true", Idx: -1, IsGate: func(c *ssa.CallCommon) bool { return a.isLocMethod(c, "IsReadOnly") }}
		g := newGateEngine(w, []gateSpec{ro}, func(in ssa.Instruction) (string, bool) {
			if ret, ok := in.(*ssa.Return); ok && len(ret.Results) == 1 && isNilConst(resolveSpill(ret.Results[0])) && in.Parent() == fn {
				return "return nil", true
			}
			return "", false
		}, func(f *ssa.Function) bool { return f != fn })
		e := g.exposes(fn)
		key := "gate=core.(*Location).CheckWrite readonly"
		if e.exposed {
			r.violation("GATE-KEYS", key, e.where, "CheckWrite can return nil without passing the not-read-only edge of IsReadOnly")
		} else {
			r.ok("GATE-KEYS", key, w.Pos(fn.Pos()), "every `return nil` lies behind the false edge of IsReadOnly")
		}
	}

	// every other function of core that makes a new Context out of a given one (it copies at least two fields of the
	// given context into a Context it allocates: a `Detached()`, a `WithTimeout()`) hands the keys on as well: the work
	// acts for whoever asked for it, and a location that wants keys wants them from a scheduled job as from anybody
	scFn := w.Method("core", "Context", "SubContext")
	for _, fn := range w.Funcs {
		if w.RelPkg(fn) != "core" || isTestFile(w, fn) || fn == scFn || len(fn.Blocks) == 0 {
			continue
		}
		copiedFields := map[ssa.Value]map[string]bool{} // new context -> fields copied from a given one
		allInstrs(fn, func(in ssa.Instruction) {
			st, ok := in.(*ssa.Store)
			if !ok {
				return
			}
			n, f, base, ok := fieldOf(st.Addr)
			if !ok || n.Obj().Name() != "Context" || n.Obj().Pkg() == nil || n.Obj().Pkg().Path() != modPath+"/core" {
				return
			}
			if _, isAlloc := base.(*ssa.Alloc); !isAlloc {
				return
			}
			n2, f2, base2, ok := loadedField(st.Val)
			if !ok || n2 != n || f2 != f {
				return
			}
			if _, isParam := base2.(*ssa.Parameter); !isParam {
				return
			}
			if copiedFields[base] == nil {
				copiedFields[base] = map[string]bool{}
			}
			copiedFields[base][f] = true
		})
		for base, fs := range copiedFields {
			if len(fs) < 2 {
				continue
			}
			key := "derive=" + fname(fn)
			if fs["ReadKey"] && fs["WriteKey"] {
				r.ok("GATE-KEYS", key, w.Pos(base.Pos()), "a context derived from a given one carries its keys")
			} else {
				r.violation("GATE-KEYS", key, w.Pos(base.Pos()), "this function makes a new Context out of a given one (it copies "+itoa(len(fs))+" of its fields) and leaves ReadKey / WriteKey behind: what runs with the new context is refused by a protected location although the caller presented the keys (a scheduled rule of a protected location never acts)")
			}
		}
	}

	// SubContext copies both keys
	sc := w.Method("core", "Context", "SubContext")
	for _, field := range []string{"ReadKey", "WriteKey"} {
		copied := false
		allInstrs(sc, func(in ssa.Instruction) {
			st, ok := in.(*ssa.Store)
			if !ok {
				return
			}
			n, f, base, ok := fieldOf(st.Addr)
			if !ok || n.Obj().Name() != "Context" || f != field {
				return
			}
			if _, isAlloc := base.(*ssa.Alloc); !isAlloc {
				return
			}
			n2, f2, base2, ok := loadedField(st.Val)
			if ok && n2 == n && f2 == field {
				if p, isParam := base2.(*ssa.Parameter); isParam && p == sc.Params[0] {
					copied = true
				}
			}
		})
		key := "core.(*Context).SubContext field=" + field
		if copied {
			r.ok("GATE-KEYS", key, w.Pos(sc.Pos()), "the new context's "+field+" is loaded from the receiver's "+field)
		} else {
			r.violation("GATE-KEYS", key, w.Pos(sc.Pos()), "SubContext does not copy "+field+" from its receiver into the new context")
		}
	}
}

// GATE-CAP (C20): AtCapacity dominates state.Add in the public add operations and its true edge leaves without a write.
func ruleGateCap(w *World, r *Report) {
	a := newLocAnchors(w)
	capGate := gateSpec{Name: "AtCapacity", FailWhen: "true", Idx: -1, IsGate: func(c *ssa.CallCommon) bool { return a.isLocMethod(c, "AtCapacity") }}
	r.Rule("GATE-CAP", "every path from Location.AddFact / AddRule (and every root that can add) to State.Add passes the false edge of Location.AtCapacity; nothing is written before the test", 2)
	isSink := func(in ssa.Instruction) (string, bool) {
		return a.stateCall(in, map[string]bool{"Add": true})
	}
	// property writes (SetProp) are not "public add operations": do not descend into the package-level SetProp helper
	skip := func(fn *ssa.Function) bool {
		if a.inStateLayer(fn) || isTestFile(w, fn) {
			return true
		}
		o := outermost(fn)
		return o.Signature.Recv() == nil && o.Pkg != nil && o.Pkg.Pkg.Path() == modPath+"/core" && o.Name() == "SetProp"
	}
	// what the property bounds is how many facts the location holds: a write under an id that the state has already (the
	// nil-error edge of State.Get) replaces and does not add.  (Whether the id that was looked up is the id the fact
	// will be stored under — a property's is made from the fact — is a matter of values and not decided.)
	existsGate := gateSpec{Name: "State.Get(id) succeeded", FailWhen: "nonnil", Idx: 1, IsGate: func(c *ssa.CallCommon) bool {
		o := calleeObj(c)
		return o != nil && o.Name() == "Get" && isIfaceMethodCall(c, a.State, "Get")
	}}
	g := newGateEngine(w, []gateSpec{capGate, existsGate}, isSink, skip)
	// a helper that turns the test into an error (`checkCapacity`) is a gate of its own
	if wr := g.deriveWrappers(func(fn *ssa.Function) bool { return w.RelPkg(fn) == "core" && !a.inStateLayer(fn) }); len(wr) > 0 {
		r.Notes = append(r.Notes, "GATE-CAP: gate wrappers: "+strings.Join(wr, ", "))
	}
	for _, name := range []string{"AddFact", "AddRule"} {
		fn := w.Method("core", "Location", name)
		key := "entry=" + fname(fn)
		if !g.reaches(fn) {
			r.violation("GATE-CAP", key, w.Pos(fn.Pos()), "public add operation no longer reaches State.Add (anchor changed)")
			continue
		}
		if e := g.exposes(fn); e.exposed {
			r.violation("GATE-CAP", key, e.where, "reaches State.Add without passing the not-at-capacity edge of AtCapacity", e.chain...)
		} else {
			r.ok("GATE-CAP", key, w.Pos(fn.Pos()), "State.Add only behind the false edge of AtCapacity")
		}
	}
	// other entries that can add facts: exported Location methods and roots
	for _, m := range a.exportedLocationMethods() {
		if m.Name() == "AddFact" || m.Name() == "AddRule" || !g.reaches(m) {
			continue
		}
		key := "entry=" + fname(m)
		if e := g.exposes(m); e.exposed {
			r.violation("GATE-CAP", key, e.where, "exported Location method adds to state without the capacity test", e.chain...)
		} else {
			r.ok("GATE-CAP", key, w.Pos(m.Pos()), "adds only through capacity-tested operations")
		}
	}
	for _, f := range a.roots() {
		if f.Signature.Recv() != nil && namedOf(f.Signature.Recv().Type()) == a.Location {
			continue
		}
		if takesStateParam(a, f) || a.inStateLayer(f) || !g.reaches(f) {
			continue
		}
		key := "entry=" + fname(f)
		if e := g.exposes(f); e.exposed {
			r.violation("GATE-CAP", key, e.where, "root adds to state without the capacity test", e.chain...)
		} else {
			r.ok("GATE-CAP", key, w.Pos(f.Pos()), "adds only through capacity-tested operations")
		}
	}
	// the replacement edge asks about the id the fact will be stored under: a property is stored under an id made from
	// the fact (genPropId), not under the given one, so in a function that weighs capacity against `is there already`
	// the id handed to State.Get derives — on some edge of a phi at least — from the function that makes that id
	gp := w.Func("core", "genPropId")
	for _, fn := range w.Funcs {
		if w.RelPkg(fn) != "core" || a.inStateLayer(fn) || isTestFile(w, fn) || len(fn.Blocks) == 0 {
			continue
		}
		weighs := false
		var gets []*ssa.CallCommon
		var getPos []ssa.Instruction
		allInstrs(fn, func(in ssa.Instruction) {
			c := callOf(in)
			if c == nil {
				return
			}
			if capGate.IsGate(c) {
				weighs = true
			}
			if existsGate.IsGate(c) {
				gets = append(gets, c)
				getPos = append(getPos, in)
			}
		})
		if !weighs {
			continue
		}
		for i, c := range gets {
			if len(c.Args) < 2 {
				continue
			}
			key := "fn=" + fname(fn) + " replacement-id"
			if dependsOn(c.Args[1], func(v ssa.Value) bool {
				cc, ok := v.(*ssa.Call)
				return ok && cc.Common().StaticCallee() == gp
			}) {
				r.ok("GATE-CAP", key, w.PosOf(getPos[i]), "the id that is looked up is the id the fact is stored under (a property's is made from the fact)")
			} else {
				r.violation("GATE-CAP", key, w.PosOf(getPos[i]), "a full location lets a write through when State.Get finds the *given* id; a property is stored under an id made from the fact, so `replace what is stored under x` with a property in hand adds a fact to a full location")
			}
		}
	}
	// AtCapacity itself compares MaxFacts with State.Count
	at := w.Method("core", "Location", "AtCapacity")
	usesCount, usesMax := false, false
	allInstrs(at, func(in ssa.Instruction) {
		if _, ok := a.stateCall(in, map[string]bool{"Count": true}); ok {
			usesCount = true
		}
		if fa, ok := in.(*ssa.FieldAddr); ok {
			if n, f, _, ok := fieldOf(fa); ok && n.Obj().Name() == "Control" && f == "MaxFacts" {
				usesMax = true
			}
		}
	})
	if usesCount && usesMax {
		r.ok("GATE-CAP", "core.(*Location).AtCapacity operands", w.Pos(at.Pos()), "reads Control.MaxFacts and State.Count")
	} else {
		r.violation("GATE-CAP", "core.(*Location).AtCapacity operands", w.Pos(at.Pos()), "AtCapacity no longer derives its answer from Control.MaxFacts and State.Count")
	}
	r.stat("GATE-CAP.functions_analysed", g.fnsAnalysed)
}

func init() {
	register(&propertySpec{
		ID:      "C19",
		Explain: "Static must-pass-through analysis over SSA + the VTA call graph of /repo's current tree. Decides structural necessary conditions of C19: (GATE-W/R/E) every path from each exported core.Location method and from each root function (JS Env callbacks, goroutine bodies, closures with no rulio caller) to a mutating / revealing core.State call passes the success edge of CheckWrite / CheckRead / Enabled, with the check placed before the first state access (so a refusal leaves state and storage untouched); (GATE-UNTRUSTED) the deliberately ungated mutators are called only from allow-listed trusted code; (GATE-KEYS) the gates compare the right context key with the right property, honour read-only, and sub-contexts inherit the keys. It does NOT decide behavioural equality with the right keys, nor value-level details of the key comparison beyond operand provenance.",
		Assume: []string{
			"VTA call graph over-approximates dynamic dispatch; otto calls the Env closures reflectively, so every function without a rulio caller is treated as an entry",
			"external implementers of core.App / Tracer / Logger do not touch location state except through the public Location API",
			"code holding a core.State value directly (package-level helpers taking a State, state hooks) is below the gate layer",
		},
		Rules: []ruleFn{ruleKeysOwnCtx("C19"), ruleGateW, ruleGateR, ruleGateE, ruleGateUntrusted, ruleGateKeys, rulePropCanon, rulePropMarker, ruleGateFailClosed, ruleGateParents, ruleGateCount, rulePropTyped("C19"), ruleStateFresh("C19")},
	})
}

// GATE-FIRE (C10): in a disabled location no rule fires.
func ruleGateFire(w *World, r *Report) {
	a := newLocAnchors(w)
	_, _, en := locGates(a)
	exec := w.Method("core", "Location", "ExecAction")
	isSink := func(in ssa.Instruction) (string, bool) {
		c := callOf(in)
		if c == nil || c.StaticCallee() != exec {
			return "", false
		}
		return "Location.ExecAction", true
	}
	runGateRuleSink(w, r, a, "GATE-FIRE", []gateSpec{en}, isSink,
		"every path from an entry (an exported Location method, or a root such as a script callback or a goroutine) to the execution of a rule's action (a call of Location.ExecAction) passes the true edge of Location.Enabled: in a disabled location no rule fires, whether it was found by search, loaded for a trigger or embedded in the event itself", 2)
}

// flowsToReturn: the (first, non-error) result of the call instruction in is handed back by its function as it is:
// followed through phis, conversions, re-slicings, local slots and copies made with append/copy — not through other calls.
func flowsToReturn(in ssa.Instruction) bool {
	v, ok := in.(ssa.Value)
	if !ok {
		return false
	}
	var direct func(x ssa.Value, seen map[ssa.Value]bool) bool
	direct = func(x ssa.Value, seen map[ssa.Value]bool) bool {
		if seen[x] {
			return false
		}
		seen[x] = true
		x = resolveSpill(x)
		switch t := x.(type) {
		case *ssa.Extract:
			if t.Tuple == v {
				return t.Index == 0
			}
		case *ssa.Phi:
			for _, e := range t.Edges {
				if direct(e, seen) {
					return true
				}
			}
		case *ssa.ChangeType:
			return direct(t.X, seen)
		case *ssa.Convert:
			return direct(t.X, seen)
		case *ssa.MakeInterface:
			return direct(t.X, seen)
		case *ssa.Slice:
			return direct(t.X, seen)
		case *ssa.Call:
			if t == v {
				_, isTuple := v.Type().(*types.Tuple)
				return !isTuple
			}
			if b, ok := t.Common().Value.(*ssa.Builtin); ok && b.Name() == "append" {
				for _, a := range t.Common().Args {
					if direct(a, seen) {
						return true
					}
				}
			}
		}
		return false
	}
	found := false
	allInstrs(in.Parent(), func(x ssa.Instruction) {
		if ret, ok := x.(*ssa.Return); ok {
			for _, res := range ret.Results {
				if direct(res, map[ssa.Value]bool{}) {
					found = true
				}
			}
		}
	})
	return found
}

// GATE-PARENTS (C19): the parent list is revealed only with the read key.
func ruleGateParents(w *World, r *Report) {
	a := newLocAnchors(w)
	_, rd, _ := locGates(a)
	gp := w.Method("core", "Location", "getParents")
	runGateRuleSink(w, r, a, "GATE-PARENTS", []gateSpec{rd}, func(in ssa.Instruction) (string, bool) {
		c := callOf(in)
		if c == nil || c.StaticCallee() != gp {
			return "", false
		}
		if !flowsToReturn(in) {
			return "", false // the ancestor walk uses the list to find its way; it does not hand it out
		}
		return "Location.getParents (result returned)", true
	}, "the parent set is a stored property of the location (`!.parents`): every path from an entry to a call of Location.getParents whose result is handed back to the caller passes the success edge of Location.CheckRead (the ancestor walk, which only uses the list to find its way, is not a sink)", 1)
}

// GATE-COUNT (C19, C10): the size of a disabled location is not reported.
func ruleGateCount(w *World, r *Report) {
	a := newLocAnchors(w)
	_, _, en := locGates(a)
	st := w.Named("core", "State")
	runGateRuleSink(w, r, a, "GATE-COUNT", []gateSpec{en}, func(in ssa.Instruction) (string, bool) {
		c := callOf(in)
		if c == nil || !isIfaceMethodCall(c, st, "Count") {
			return "", false
		}
		v, ok := in.(ssa.Value)
		if !ok {
			return "", false
		}
		// handed back as a number (not merely compared with a limit)
		found := false
		allInstrs(in.Parent(), func(x ssa.Instruction) {
			if ret, ok := x.(*ssa.Return); ok {
				for _, res := range ret.Results {
					if b, isB := res.Type().Underlying().(*types.Basic); isB && b.Info()&types.IsInteger != 0 && dependsOn(res, func(y ssa.Value) bool { return y == v }) {
						found = true
					}
				}
			}
		})
		if !found {
			return "", false
		}
		return "State.Count (result returned)", true
	}, "in a disabled location every operation reports that the location is disabled: every path from an entry to a State.Count whose result is handed back as a number passes the true edge of Location.Enabled (a comparison with the capacity inside an operation that has its own gates is not a sink)", 1)
}
