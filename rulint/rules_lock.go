package main

// rules_lock.go: LOCKSET rule instances (C11, C12, C16, C17, C20) and their frozen guard tables.
//
// The tables were inferred with `rulint -debug lockinfer` (every field of every struct that
// contains a sync mutex, with how it is accessed), then confirmed by reading and frozen here,
// one line of reason per entry or exception.

import (
	"sort"
	"strings"

	"golang.org/x/tools/go/ssa"
)

func fields(names ...string) map[string]bool {
	m := map[string]bool{}
	for _, n := range names {
		m[n] = true
	}
	return m
}

// guard tables ---------------------------------------------------------------------------------

func guardsStates(w *World) []*guardSpec {
	// the parsed-rule cache: under the state's lock, or — if the state has one — under the cache's own mutex
	// (`cacheLock`, a leaf lock: events read and fill the cache after they have released the state's lock)
	idxF, linF := fields("IdToFact", "FactIndex", "RuleIndex", "Loaded"), fields("Facts")
	var own []*guardSpec
	for _, o := range []struct {
		name string
		f    map[string]bool
	}{{"IndexedState", idxF}, {"LinearState", linF}} {
		have := map[string]bool{}
		if st := structOf(w.Named("core", o.name)); st != nil {
			for k := 0; k < st.NumFields(); k++ {
				have[st.Field(k).Name()] = true
			}
		}
		if have["cacheLock"] {
			cf := fields("cachedRules")
			if have["cacheGen"] {
				cf["cacheGen"] = true
			}
			own = append(own, &guardSpec{Owner: "core." + o.name, Lock: "core." + o.name + ".cacheLock", Fields: cf})
		} else {
			o.f["cachedRules"] = true
		}
	}
	return append([]*guardSpec{
		// state maps and indexes: "write lock around add/rem, read lock around search/find"
		{Owner: "core.IndexedState", Lock: "core.IndexedState.RWMutex", Fields: idxF},
		{Owner: "core.LinearState", Lock: "core.LinearState.RWMutex", Fields: linF},
		// Location: control / ReadOnly under the embedded RWMutex, lastUpdated under updatedMutex
		{Owner: "core.Location", Lock: "core.Location.RWMutex", Fields: fields("control", "ReadOnly")},
		{Owner: "core.Location", Lock: "core.Location.updatedMutex", Fields: fields("lastUpdated")},
		// Context: the privilege flag and the property maps copied under RLock by SubContext
		{Owner: "core.Context", Lock: "core.Context.RWMutex", Fields: fields("privilege", "props", "logProps")},
	}, own...)
}

func guardsSystem() []*guardSpec {
	return []*guardSpec{
		// "assumes we have the sys lock" (sys/system.go ensureStorage)
		{Owner: "sys.System", Lock: "sys.System.Mutex", Fields: fields("storage")},
		{Owner: "sys.CachedLocations", Lock: "sys.CachedLocations.Mutex", Fields: fields("locs")},
		{Owner: "sys.CachedLocation", Lock: "sys.CachedLocation.Mutex", Fields: fields("Location", "Expires", "Pending")},
		{Owner: "core.MemStorage", Lock: "core.MemStorage.Mutex", Fields: fields("locToPairs")},
		{Owner: "core.TimerHistory", Lock: "core.TimerHistory.Mutex", Fields: fields("buffer", "offset", "size")},
		// package-level maps
		{Owner: "", Lock: "core.timersMutex", Fields: fields("core.timerHistories")},
		{Owner: "", Lock: "", Fields: fields("core.HTTPBreakers")}, // "not protected by a mutex" by its own comment
	}
}

func guardsCache() []*guardSpec {
	return []*guardSpec{
		{Owner: "sys.System", Lock: "sys.System.Mutex", Fields: fields("storage")},
		{Owner: "sys.CachedLocations", Lock: "sys.CachedLocations.Mutex", Fields: fields("locs")},
		{Owner: "sys.CachedLocation", Lock: "sys.CachedLocation.Mutex", Fields: fields("Location", "Expires", "Pending")},
	}
}

func ruleLocksetCache(w *World, r *Report) {
	runLockset(w, r, "LOCKSET-CACHE", guardsCache(),
		"guarded-by for the location cache: CachedLocations.locs under the table mutex, CachedLocation.{Location,Expires,Pending} under the entry mutex, System.storage under the System mutex", 10)
}

func guardsCron() []*guardSpec {
	return []*guardSpec{
		{Owner: "cron.Cron", Lock: "cron.Cron.Mutex", Fields: fields("Timeline", "control", "timerTarget")},
		{Owner: "cron.CronBroadcaster", Lock: "cron.CronBroadcaster.RWMutex", Fields: fields("suspended", "c")},
	}
}

func guardsBreakers() []*guardSpec {
	return []*guardSpec{
		{Owner: "core.OutboundBreaker", Lock: "core.OutboundBreaker.Mutex", Fields: fields("counts", "updated", "limit", "interval", "ticks", "disabled")},
		{Owner: "core.SimpleBreaker", Lock: "core.SimpleBreaker.Mutex", Fields: fields("probe", "limit", "disabled")},
		{Owner: "core.Throttle", Lock: "core.Throttle.Mutex", Fields: fields("pending", "pendingLimit", "disabled")},
	}
}

// exceptions: field|access|in=fn -> reason (one named construct each) and the premise that keeps
// the exception sound, re-checked on every run; a false premise turns the exception off.
type lockException struct {
	Reason  string
	Premise func(w *World) string // "" if the premise holds, else why not
}

var locksetExceptions = map[string]lockException{
	"cron.Cron.control|read|in=(*cron.Cron).start": {
		Reason: "read by the loop goroutine that is the field's only writer (it set the channel a few lines above under the lock and clears it itself on exit)",
		Premise: func(w *World) string {
			return onlyWriters(w, "cron", "Cron", "control", map[string]bool{"(*cron.Cron).start": true})
		},
	},
	"sys.CachedLocation.Location|read|in=(*sys.CachedLocation).Get": {
		Reason: "the read after the unlock is made by the entry's only writer: Get is the only function that stores cl.Location and it is called exactly once per entry, by CachedLocations.Open on the entry it has just allocated (a runtime probe with concurrent open/create confirmed no race)",
		Premise: func(w *World) string {
			if m := onlyWriters(w, "sys", "CachedLocation", "Location", map[string]bool{"(*sys.CachedLocation).Get": true}); m != "" {
				return m
			}
			get := w.TryMethod("sys", "CachedLocation", "Get")
			if get == nil {
				return "method (*sys.CachedLocation).Get not found"
			}
			n := 0
			for _, e := range w.Callers(get) {
				c := e.Caller.Func
				if isTestFile(w, c) || c.Synthetic != "" {
					continue
				}
				n++
				if fname(c) != "(*sys.CachedLocations).Open" {
					return "Get is also called from " + fname(c)
				}
				cc := e.Site.Common()
				if len(cc.Args) == 0 || !isFreshBase(cc.Args[0]) {
					return "Open calls Get on an entry it did not allocate itself"
				}
			}
			if n != 1 {
				return "expected exactly one call site of Get"
			}
			return ""
		},
	},
}

// onlyWriters: every store to field pkg.typ.field outside composite-literal construction is in one of the allowed functions.
func onlyWriters(w *World, rel, typ, field string, allowed map[string]bool) string {
	bad := ""
	for _, fn := range w.Funcs {
		if isTestFile(w, fn) {
			continue
		}
		allInstrs(fn, func(in ssa.Instruction) {
			st, ok := in.(*ssa.Store)
			if !ok {
				return
			}
			n, f, base, ok := fieldOf(st.Addr)
			if !ok || f != field || typeKey(n) != rel+"."+typ {
				return
			}
			if isFreshBase(base) {
				return
			}
			if !allowed[fname(fn)] {
				bad = "field " + rel + "." + typ + "." + field + " is also written in " + fname(fn)
			}
		})
	}
	return bad
}

// runLockset turns the engine's findings into obligations.
func runLockset(w *World, r *Report, rule string, guards []*guardSpec, doc string, floor int) *locksetEngine {
	return runLocksetX(w, r, rule, guards, nil, doc, floor)
}

func runLocksetX(w *World, r *Report, rule string, guards []*guardSpec, extra func(fn *ssa.Function, ins ssa.Instruction) (string, string, string, bool), doc string, floor int) *locksetEngine {
	r.Rule(rule, doc, floor)
	// resolve the table: every owner type and field must exist
	for _, g := range guards {
		if g.Owner == "" {
			for f := range g.Fields {
				i := strings.LastIndex(f, ".")
				sp := w.SSA[f[:i]]
				if sp == nil || sp.Var(f[i+1:]) == nil {
					undecided("%s: guarded package variable %s not found", rule, f)
				}
			}
			continue
		}
		i := strings.LastIndex(g.Owner, ".")
		n := w.Named(g.Owner[:i], g.Owner[i+1:])
		have := map[string]bool{}
		if st := structOf(n); st != nil {
			for k := 0; k < st.NumFields(); k++ {
				have[st.Field(k).Name()] = true
			}
		}
		for f := range g.Fields {
			if !have[f] {
				undecided("%s: guarded field %s.%s not found", rule, g.Owner, f)
			}
		}
		lf := g.Lock[strings.LastIndex(g.Lock, ".")+1:]
		if !have[lf] {
			// an embedded sync.Mutex that became a sync.RWMutex (or the reverse) keeps guarding the same fields
			alt := map[string]string{"Mutex": "RWMutex", "RWMutex": "Mutex"}[lf]
			if alt != "" && have[alt] {
				g.Lock = g.Lock[:strings.LastIndex(g.Lock, ".")+1] + alt
			} else {
				undecided("%s: lock field %s not found", rule, g.Lock)
			}
		}
	}
	e := newLocksetEngine(w, guards)
	e.extra = extra
	fs := e.findings(nil)
	bad := map[string]bool{}
	for _, f := range fs {
		q := f.Req
		akey := q.Field + "|" + q.Access + "|in=" + q.In
		bad[q.Field+"|"+q.Access+"|"+q.In] = true
		key := akey + "|root=" + f.Root + "|have=" + q.Have.String()
		if ex, ok := locksetExceptions[akey]; ok {
			if why := ex.Premise(w); why == "" {
				r.exempt(rule, key, q.Where, ex.Reason)
				continue
			} else {
				r.Notes = append(r.Notes, "exception for "+akey+" switched off: "+why)
			}
		}
		if q.Access == "read" && !e.sharedWrite[q.Field] && !strings.HasPrefix(q.Lock, "<none>") && e.byField[q.Field] != nil && extra == nil {
			r.exempt(rule, key, q.Where, "immutable after construction: no write to "+q.Field+" exists outside a constructor (checked on this run)")
			continue
		}
		detail := ""
		switch f.Kind {
		case "write-under-read-lock":
			detail = "write to " + q.Field + " while only the read lock is held"
		case "goroutine":
			detail = q.Access + " of " + q.Field + " in a goroutine that does not hold " + q.Lock
		case "outside-owner":
			detail = q.Access + " of " + q.Field + " without " + q.Lock
		default:
			detail = q.Access + " of " + q.Field + " needs " + q.Lock + "(" + q.Mode.String() + ") but " + f.Root + " can be called holding " + q.Have.String()
		}
		if strings.HasPrefix(q.Lock, "<none>") {
			detail = q.Access + " of " + q.Field + ", which no lock protects"
		}
		r.violation(rule, key, q.Where, detail, q.Chain...)
	}
	var keys []string
	for k := range e.seenAccess {
		keys = append(keys, k)
	}
	sort.Strings(keys)
	for _, k := range keys {
		if bad[k] {
			continue
		}
		p := strings.SplitN(k, "|", 3)
		r.ok(rule, p[0]+"|"+p[1]+"|in="+p[2], e.seenAccess[k], "every path to this access holds the guarding lock in a sufficient mode (locally or at every call site)")
	}
	r.stat(rule+".guarded_accesses", e.accesses)
	r.stat(rule+".lock_operations", e.lockOps)
	r.stat(rule+".function_specialisations_analysed", e.fnAnalysed)
	r.stat(rule+".fresh_object_exemptions", e.freshExempt)
	r.stat(rule+".fixpoint_rounds", e.rounds)
	return e
}

func ruleLocksetStates(w *World, r *Report) {
	runLockset(w, r, "LOCKSET", guardsStates(w),
		"guarded-by: every access to IndexedState.{IdToFact,FactIndex,RuleIndex,Loaded,cachedRules}, LinearState.{Facts,cachedRules}, Location.{control,ReadOnly,lastUpdated}, Context.{privilege,props,logProps} happens with the owning mutex held (exclusively for writes) on every static path, through wrappers (slock/sunlock, lock-bool parameters) and call chains", 40)
}

func ruleLocksetSystem(w *World, r *Report) {
	runLockset(w, r, "LOCKSET-SYS", guardsSystem(),
		"guarded-by for the state that different locations share: System.storage, CachedLocations.locs, CachedLocation.{Location,Expires,Pending}, MemStorage.locToPairs, TimerHistory buffers, package maps timerHistories (timersMutex) and HTTPBreakers (no lock)", 15)
}

func ruleLocksetCron(w *World, r *Report) {
	runLockset(w, r, "LOCKSET-CRON", guardsCron(),
		"guarded-by for the in-memory cron: Cron.{Timeline,control,timerTarget} under Cron.Mutex, CronBroadcaster state under its RWMutex", 10)
}

func ruleLocksetBreakers(w *World, r *Report) {
	runLockset(w, r, "LOCKSET-BRK", guardsBreakers(),
		"guarded-by for the limiters: OutboundBreaker.{counts,updated,limit,interval,ticks,disabled}, SimpleBreaker.{probe,limit,disabled}, Throttle.{pending,pendingLimit,disabled} under their mutexes", 10)
}

var _ = ssa.Function{}
