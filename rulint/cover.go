package main

// cover.go: COVER engine — "every event E(id) inside a state implementation is preceded on its path by a
// covering call C(id) for the same id", with requirements that propagate to callers inside the type.
//
// A function that performs an uncovered event on its own id parameter *needs-param* (its callers may
// still cover it by calling C with the argument they pass); one that performs an uncovered event on any
// other value *needs-other* (nobody can cover that from outside).  Requirements are reported at the
// type's API boundary (methods called from outside the type / exported methods).

import (
	"sort"

	"golang.org/x/tools/go/ssa"
)

type coverSpec struct {
	// event: in is an event; returns the id value it concerns (nil = all ids / unknown) and a description
	Event func(owner string, fn *ssa.Function, in ssa.Instruction) (id ssa.Value, desc string, ok bool)
	// cover: in is a covering call; returns the id it covers (nil = covers every id, e.g. a loop over all)
	Cover func(owner string, fn *ssa.Function, in ssa.Instruction) (id ssa.Value, all bool, ok bool)
	// Edges: edges on which the obligation is void (e.g. no hook installed) are deleted
	Edges func(owner string, fn *ssa.Function) edgeFilter
	// VoidAllIn: functions in which a wholesale event handed up by a callee is no event (Load replaces an empty map)
	VoidAllIn func(fn *ssa.Function) bool
}

type coverNeed struct {
	Param bool
	Other bool
	All   bool // a wholesale event (all ids) not preceded by a cover-all
	Where string   // position of the first uncovered event
	Desc  string   // what is uncovered
	Chain []string // call chain to the primitive event
}

type coverEngine struct {
	w     *World
	a     *locAnchors
	spec  coverSpec
	layer []*ssa.Function
	needs map[*ssa.Function]*coverNeed
	// events seen (for counts)
	events int
}

func newCoverEngine(w *World, a *locAnchors, spec coverSpec) *coverEngine {
	e := &coverEngine{w: w, a: a, spec: spec, needs: map[*ssa.Function]*coverNeed{}}
	for _, fn := range w.Funcs {
		if _, ok := stateOwnerOf(a, fn); ok && !isTestFile(w, fn) && fn.Synthetic == "" {
			e.layer = append(e.layer, fn)
		}
	}
	return e
}

// idParamIndex: index of the `id string` parameter of a state method (by name and type), or -1.
func idParamIndex(fn *ssa.Function) int {
	for i, p := range fn.Params {
		if p.Name() == "id" {
			return i
		}
	}
	return -1
}

func sameValue(a, b ssa.Value) bool {
	if a == nil || b == nil {
		return false
	}
	return resolveSpill(a) == resolveSpill(b) || a == b
}

func (e *coverEngine) solve() {
	for changed := true; changed; {
		changed = false
		for _, fn := range e.layer {
			owner, _ := stateOwnerOf(e.a, fn)
			need := &coverNeed{}
			idIdx := idParamIndex(fn)
			var idParam ssa.Value
			if idIdx >= 0 {
				idParam = fn.Params[idIdx]
			}
			allInstrs(fn, func(in ssa.Instruction) {
				if _, isDefer := in.(*ssa.Defer); isDefer {
					return
				}
				var evID ssa.Value
				desc := ""
				isEv := false
				var chain []string
				if id, d, ok := e.spec.Event(owner, fn, in); ok {
					evID, desc, isEv = id, d, true
					chain = []string{fname(fn)}
				} else if c := callOf(in); c != nil {
					if f := c.StaticCallee(); f != nil && f != fn {
						if o2, ok := stateOwnerOf(e.a, f); ok && o2 == owner {
							if n := e.needs[f]; n != nil && !isFreshAt(c.Args[0], in) {
								if n.All && !n.Param && !(e.spec.VoidAllIn != nil && e.spec.VoidAllIn(fn)) {
									evID, desc, isEv = nil, n.Desc, true
									chain = append([]string{fname(fn)}, n.Chain...)
								}
								if n.Other {
									// cannot be covered here
									if !need.Other {
										need.Other, need.Where, need.Desc = true, e.w.PosOf(in), n.Desc
										need.Chain = append([]string{fname(fn)}, n.Chain...)
									}
								}
								if n.Param {
									if k := idParamIndex(f); k >= 0 && k < len(c.Args) {
										evID, desc, isEv = c.Args[k], n.Desc, true
										chain = append([]string{fname(fn)}, n.Chain...)
									}
								}
							}
						}
					}
				}
				if !isEv {
					return
				}
				// covered on every path from entry?
				covers := func(x ssa.Instruction) bool {
					if _, isDefer := x.(*ssa.Defer); isDefer {
						return false
					}
					id, all, ok := e.spec.Cover(owner, fn, x)
					if !ok {
						return false
					}
					return all || (evID != nil && sameValue(id, evID))
				}
				var ef edgeFilter
				if e.spec.Edges != nil {
					ef = e.spec.Edges(owner, fn)
				}
				if h, _ := reach(fn, nil, func(x ssa.Instruction) bool { return x == in }, covers, ef); h == nil {
					return // covered (or unreachable once the void edges are deleted)
				}
				if evID == nil {
					if !need.All {
						need.All = true
						if need.Where == "" {
							need.Where, need.Desc, need.Chain = e.w.PosOf(in), desc, chain
						}
					}
				} else if idParam != nil && sameValue(evID, idParam) {
					if !need.Param {
						need.Param = true
						if need.Where == "" {
							need.Where, need.Desc, need.Chain = e.w.PosOf(in), desc, chain
						}
					}
				} else {
					if !need.Other {
						need.Other, need.Where, need.Desc, need.Chain = true, e.w.PosOf(in), desc, chain
					}
				}
			})
			old := e.needs[fn]
			if old == nil {
				old = &coverNeed{}
			}
			if need.Param != old.Param || need.Other != old.Other || need.All != old.All {
				if need.Param || need.Other || need.All {
					e.needs[fn] = need
				} else {
					delete(e.needs, fn)
				}
				changed = true
			}
		}
	}
}

// boundary: is fn part of the type's API (called from outside the type, or an exported method)?
func (e *coverEngine) boundary(fn *ssa.Function) bool {
	owner, _ := stateOwnerOf(e.a, fn)
	if fn.Parent() != nil {
		return false
	}
	for _, c := range e.w.Callers(fn) {
		cf := c.Caller.Func
		if isTestFile(e.w, cf) || cf.Synthetic != "" {
			continue
		}
		if o2, ok := stateOwnerOf(e.a, cf); ok && o2 == owner {
			continue
		}
		cc := c.Site.Common()
		if !cc.IsInvoke() && len(cc.Args) > 0 && isFreshAt(cc.Args[0], c.Site) {
			continue
		}
		return true
	}
	return fn.Object() != nil && fn.Object().Exported() && implementsStateMethod(e.a, fn)
}

// report emits one obligation per API function that contains or reaches an event.
func (e *coverEngine) report(r *Report, rule string, exempt func(fn *ssa.Function, n *coverNeed) string) {
	e.solve()
	// functions that reach an event at all
	reaches := map[*ssa.Function]bool{}
	for changed := true; changed; {
		changed = false
		for _, fn := range e.layer {
			if reaches[fn] {
				continue
			}
			owner, _ := stateOwnerOf(e.a, fn)
			allInstrs(fn, func(in ssa.Instruction) {
				if reaches[fn] {
					return
				}
				if _, _, ok := e.spec.Event(owner, fn, in); ok {
					reaches[fn], changed = true, true
					return
				}
				if c := callOf(in); c != nil {
					if f := c.StaticCallee(); f != nil && reaches[f] {
						if o2, ok := stateOwnerOf(e.a, f); ok && o2 == owner {
							reaches[fn], changed = true, true
						}
					}
				}
			})
		}
	}
	var fns []*ssa.Function
	for _, fn := range e.layer {
		if reaches[fn] && e.boundary(fn) {
			fns = append(fns, fn)
		}
	}
	sort.Slice(fns, func(i, j int) bool { return fns[i].String() < fns[j].String() })
	for _, fn := range fns {
		key := "api=" + fname(fn)
		n := e.needs[fn]
		if n == nil {
			r.ok(rule, key, e.w.Pos(fn.Pos()), "every event reachable from this API method is covered for the id it concerns")
			continue
		}
		kind := ""
		if n.Param {
			kind += "+own-id"
		}
		if n.Other {
			kind += "+other-ids"
		}
		if n.All {
			kind += "+all-ids"
		}
		kind = kind[1:]
		key += " kind=" + kind
		if why := exempt(fn, n); why != "" {
			r.exempt(rule, key, n.Where, why)
			continue
		}
		r.violation(rule, key, n.Where, n.Desc, n.Chain...)
	}
}
