package main

// errflow.go: ERRFLOW engine — "the error returned by call C reaches the enclosing function's error
// result (or is stored into a result object, or handed to a handler) on every path on which it is non-nil".
//
// A small path-sensitive forward exploration over (block, set of SSA values / local slots that
// currently carry the error).  Phi nodes are resolved by the edge the path arrives on, so an error
// that is overwritten on some path ("err = f(); ...; err = g(); return err") is a drop on that path.

import (
	"go/token"
	"go/types"
	"sort"
	"strings"

	"golang.org/x/tools/go/ssa"
)

type errDrop struct {
	At     ssa.Instruction // where the path ends without the error
	How    string
	Blocks []*ssa.BasicBlock
}

type errflowCfg struct {
	// handler: a call that consumes the error legitimately when one of its arguments carries it
	// (throwJavascript, protest, panic, t.Fatal ...)
	handler func(c *ssa.CallCommon) bool
	// classified edges: a branch on `err.(T)` / `err == sentinel` handles the error on its matching edge
	allowClassify bool
}

func taintKey(m map[ssa.Value]bool) string {
	var ks []string
	for v := range m {
		ks = append(ks, v.Name()+"@"+itoa(int(v.Pos())))
	}
	sort.Strings(ks)
	return strings.Join(ks, ",")
}

// errResult returns the SSA value carrying result idx of call c ("" if the result is discarded).
func errResultOf(c *ssa.Call, idx int) ssa.Value {
	n := c.Common().Signature().Results().Len()
	if n == 1 {
		if c.Referrers() == nil || len(*c.Referrers()) == 0 {
			return nil
		}
		return c
	}
	if c.Referrers() == nil {
		return nil
	}
	for _, ref := range *c.Referrers() {
		if ex, ok := ref.(*ssa.Extract); ok && ex.Index == idx {
			if ex.Referrers() == nil || len(*ex.Referrers()) == 0 {
				return nil
			}
			return ex
		}
	}
	return nil
}

// checkErrFlow explores all paths from the instruction defining e.
func checkErrFlow(fn *ssa.Function, def ssa.Instruction, e ssa.Value, cfg errflowCfg) []errDrop {
	errIdx := errorResultIndex(fn.Signature)
	type state struct {
		b     *ssa.BasicBlock
		i     int
		taint map[ssa.Value]bool
		from  *ssa.BasicBlock
		prev  int
	}
	var drops []errDrop
	seen := map[string]bool{}
	start := posOfInstr(def)
	queue := []state{{start.b, start.i + 1, map[ssa.Value]bool{e: true}, nil, -1}}
	pathOf := func(qi int) []*ssa.BasicBlock {
		var p []*ssa.BasicBlock
		for k := qi; k >= 0; k = queue[k].prev {
			p = append([]*ssa.BasicBlock{queue[k].b}, p...)
		}
		return p
	}
	isTainted := func(t map[ssa.Value]bool, v ssa.Value) bool {
		if v == nil {
			return false
		}
		if t[v] {
			return true
		}
		// load of a tainted local slot
		if u, ok := v.(*ssa.UnOp); ok && u.Op == token.MUL {
			if t[u.X] {
				return true
			}
		}
		return false
	}
	for qi := 0; qi < len(queue) && qi < 50000; qi++ {
		st := queue[qi]
		t := map[ssa.Value]bool{}
		for k := range st.taint {
			t[k] = true
		}
		b := st.b
		// phis at block entry (only when entering from a predecessor)
		if st.i == 0 && st.from != nil {
			pi := -1
			for k, p := range b.Preds {
				if p == st.from {
					pi = k
				}
			}
			for _, in := range b.Instrs {
				ph, ok := in.(*ssa.Phi)
				if !ok {
					break
				}
				if pi >= 0 && isTainted(t, ph.Edges[pi]) {
					t[ph] = true
				} else {
					delete(t, ph)
				}
			}
		}
		ended := false
		for i := st.i; i < len(b.Instrs) && !ended; i++ {
			in := b.Instrs[i]
			switch x := in.(type) {
			case *ssa.Phi:
				// handled above
			case *ssa.Store:
				if isTainted(t, x.Val) {
					root := addrRoot(x.Addr)
					if a, ok := root.(*ssa.Alloc); ok {
						// a local slot (named result, captured variable) or a locally built object
						// (composite literal, variadic argument array): it carries the error from now on
						t[a] = true
					} else if fv, ok := root.(*ssa.FreeVar); ok {
						t[fv] = true
					} else {
						ended = true // stored into an object reachable from outside (w.Disposition ...): propagated
					}
				} else if a, ok := x.Addr.(*ssa.Alloc); ok && t[a] {
					delete(t, a) // the slot is overwritten with something else
				} else if fv, ok := x.Addr.(*ssa.FreeVar); ok && t[fv] {
					delete(t, fv)
				}
			case *ssa.MapUpdate:
				if isTainted(t, x.Value) {
					ended = true
				}
			case *ssa.Send:
				if isTainted(t, x.X) {
					ended = true
				}
			case *ssa.Panic:
				ended = true // not a silent drop
			case *ssa.Return:
				ended = true
				ok := false
				for ri, rv := range x.Results {
					if isTainted(t, rv) && (errIdx < 0 || ri == errIdx || true) {
						ok = true
					}
				}
				if !ok {
					how := "returns without the error"
					if errIdx >= 0 && errIdx < len(x.Results) {
						if isNilConst(x.Results[errIdx]) {
							how = "returns a nil error"
						} else {
							how = "returns a different error value"
						}
					}
					drops = append(drops, errDrop{x, how, pathOf(qi)})
				}
			case ssa.CallInstruction:
				c := x.Common()
				anyT := false
				for _, a := range c.Args {
					if isTainted(t, a) {
						anyT = true
					}
				}
				if c.IsInvoke() && isTainted(t, c.Value) {
					anyT = true // err.Error()
				}
				if anyT {
					if cfg.handler != nil && cfg.handler(c) {
						ended = true
						break
					}
					if b, ok := c.Value.(*ssa.Builtin); ok && b.Name() == "panic" {
						ended = true
						break
					}
					if v, ok := in.(ssa.Value); ok {
						// the call's result derives from the error (wrapping, err.Error(), IncErrors(err) ...)
						t[v] = true
					}
				}
			default:
				if v, ok := in.(ssa.Value); ok {
					for _, op := range in.Operands(nil) {
						if op != nil && *op != nil && isTainted(t, *op) {
							switch in.(type) {
							case *ssa.MakeInterface, *ssa.ChangeInterface, *ssa.ChangeType, *ssa.Extract, *ssa.Convert, *ssa.BinOp, *ssa.TypeAssert, *ssa.UnOp, *ssa.MakeClosure, *ssa.Slice:
								t[v] = true
							}
						}
					}
				}
			}
		}
		if ended {
			continue
		}
		// successors
		var ct condTest
		haveCT := false
		var ifi *ssa.If
		if n := len(b.Instrs); n > 0 {
			if x, ok := b.Instrs[n-1].(*ssa.If); ok {
				ifi = x
				ct, haveCT = decodeIf(x)
			}
		}
		for si, s := range b.Succs {
			if haveCT && isTainted(t, ct.V) && (ct.TrueWhen == "nil" || ct.TrueWhen == "nonnil") {
				// prune the edge on which the error is nil
				nilIdx := 0
				if ct.TrueWhen == "nonnil" {
					nilIdx = 1
				}
				if si == nilIdx {
					continue
				}
			}
			if cfg.allowClassify && ifi != nil && si == 0 {
				// `if _, is := err.(*T); is {` or `if err == Sentinel {` : the matching edge handles the error
				if classifiesTainted(ifi.Cond, func(v ssa.Value) bool { return isTainted(t, v) }) {
					continue
				}
			}
			if cfg.allowClassify && ifi != nil && si == 1 {
				if u, ok := ifi.Cond.(*ssa.UnOp); ok && u.Op == token.NOT && classifiesTainted(u.X, func(v ssa.Value) bool { return isTainted(t, v) }) {
					continue
				}
				if bo, ok := ifi.Cond.(*ssa.BinOp); ok && bo.Op == token.NEQ && !isNilConst(bo.X) && !isNilConst(bo.Y) && (isTainted(t, bo.X) || isTainted(t, bo.Y)) {
					continue // err != Sentinel: the false edge is the sentinel case
				}
			}
			k := itoa(s.Index) + "<" + itoa(b.Index) + "|" + taintKey(t)
			if seen[k] {
				continue
			}
			seen[k] = true
			queue = append(queue, state{s, 0, t, b, qi})
		}
	}
	return drops
}

// classifiesTainted: cond is the ok-result of a type assertion on a tainted value, or an equality
// comparison of a tainted value with a non-nil operand (sentinel error).
func classifiesTainted(cond ssa.Value, tainted func(ssa.Value) bool) bool {
	switch x := cond.(type) {
	case *ssa.Extract:
		if ta, ok := x.Tuple.(*ssa.TypeAssert); ok && ta.CommaOk && x.Index == 1 && tainted(ta.X) {
			return true
		}
	case *ssa.BinOp:
		if x.Op == token.EQL && !isNilConst(x.X) && !isNilConst(x.Y) && (tainted(x.X) || tainted(x.Y)) {
			return true
		}
	}
	return false
}

// ---- error-source propagation over the call graph ---------------------------------------------

// errSources computes the set of functions whose error result may carry an error that originated at a
// call satisfying isSource (least fixed point over "F returns a value derived from a source call").
type errSourceSet struct {
	w        *World
	isSource func(c *ssa.CallCommon) (string, bool)
	carries  map[*ssa.Function]string // function -> description of origin
}

func newErrSources(w *World, isSource func(c *ssa.CallCommon) (string, bool)) *errSourceSet {
	return newErrSourcesCut(w, isSource, nil)
}

// newErrSourcesCut: as newErrSources, but the functions in cut never become carriers (their error is a different kind).
func newErrSourcesCut(w *World, isSource func(c *ssa.CallCommon) (string, bool), cut map[*ssa.Function]bool) *errSourceSet {
	s := &errSourceSet{w: w, isSource: isSource, carries: map[*ssa.Function]string{}}
	for changed := true; changed; {
		changed = false
		for _, fn := range w.Funcs {
			if isTestFile(w, fn) || s.carries[fn] != "" || cut[fn] {
				continue
			}
			idx := errorResultIndex(fn.Signature)
			if idx < 0 {
				continue
			}
			origin := ""
			allInstrs(fn, func(in ssa.Instruction) {
				ret, ok := in.(*ssa.Return)
				if !ok || idx >= len(ret.Results) || origin != "" {
					return
				}
				dependsOn(ret.Results[idx], func(v ssa.Value) bool {
					c, ok := v.(*ssa.Call)
					if !ok {
						return false
					}
					if d, ok := s.sourceAt(c); ok {
						origin = d
						return true
					}
					return false
				})
			})
			if origin != "" {
				s.carries[fn] = origin
				changed = true
			}
		}
	}
	return s
}

// sourceAt: is call c a source (primitive, or a call to a carrying function)?
func (s *errSourceSet) sourceAt(c *ssa.Call) (string, bool) {
	cc := c.Common()
	if errorResultIndex(cc.Signature()) < 0 {
		return "", false
	}
	if d, ok := s.isSource(cc); ok {
		return d, true
	}
	if f := cc.StaticCallee(); f != nil {
		if d := s.carries[f]; d != "" {
			return d + " via " + fname(f), true
		}
		return "", false
	}
	for _, f := range s.w.Callees(c) {
		if d := s.carries[f]; d != "" {
			return d + " via " + fname(f), true
		}
	}
	return "", false
}

func sigResults(c *ssa.CallCommon) *types.Tuple { return c.Signature().Results() }

// addrRoot follows FieldAddr / IndexAddr chains to the value the address is computed from.
func addrRoot(v ssa.Value) ssa.Value {
	for i := 0; i < 10; i++ {
		switch x := v.(type) {
		case *ssa.FieldAddr:
			v = x.X
		case *ssa.IndexAddr:
			v = x.X
		default:
			return v
		}
	}
	return v
}
