package main

// errflow.go: ERRFLOW engine — "the error returned by call C reaches the enclosing function's error
// result (or is stored into a result object, or handed to a handler) on every path on which it is non-nil".
//
// A small path-sensitive forward exploration over (block, set of SSA values / local slots that
// currently carry the error).  Phi nodes are resolved by the edge the path arrives on, so an error
// that is overwritten on some path ("err = f(); ...; err = g(); return err") is a drop on that path.

import (
	"go/token"
	"go/types"
	"sort"
	"strings"

	"golang.org/x/tools/go/ssa"
)

type errDrop struct {
	At     ssa.Instruction // where the path ends without the error
	How    string
	Blocks []*ssa.BasicBlock
}

type errflowCfg struct {
	// handler: a call that consumes the error legitimately when one of its arguments carries it
	// (throwJavascript, protest, panic, t.Fatal ...)
	handler func(c *ssa.CallCommon) bool
	// classified edges: a branch on `err.(T)` / `err == sentinel` handles the error on its matching edge
	allowClassify bool
	// successOnly: only a *success* return (nil / possibly-nil error) counts as a drop; returning a
	// different, provably non-nil error is accepted ("reports an error rather than success")
	successOnly bool
	// carries: does this returned value derive from a tracked source? (used for correlated results)
	carries func(v ssa.Value) bool
}

var neverReturnsMemo = map[*ssa.Function]int{}

// neverReturns: no Return instruction is reachable in fn (it always panics / exits): a call to it ends the path.
func neverReturns(fn *ssa.Function) bool {
	if fn == nil || fn.Blocks == nil {
		return false
	}
	if v, ok := neverReturnsMemo[fn]; ok {
		return v == 1
	}
	res := 1
	reachable := blocksReachable(fn, nil)
	for _, b := range fn.Blocks {
		if !reachable[b] || len(b.Instrs) == 0 {
			continue
		}
		if _, ok := b.Instrs[len(b.Instrs)-1].(*ssa.Return); ok && b != fn.Recover {
			res = 2
		}
	}
	neverReturnsMemo[fn] = res
	return res == 1
}

// correlatedBool: the callee returns (..., ok bool, err error) and every return with a possibly non-nil
// error has ok == true ("not applicable" implies "no error"); returns the index of that bool result.
func correlatedBool(c *ssa.Call, carriesSource func(v ssa.Value) bool) (int, bool) {
	f := c.Common().StaticCallee()
	if f == nil || f.Blocks == nil {
		return 0, false
	}
	eidx := errorResultIndex(f.Signature)
	if eidx < 1 {
		return 0, false
	}
	res := f.Signature.Results()
	for bi := 0; bi < res.Len(); bi++ {
		b, ok := res.At(bi).Type().Underlying().(*types.Basic)
		if !ok || b.Kind() != types.Bool {
			continue
		}
		holds := true
		n := 0
		allInstrs(f, func(in ssa.Instruction) {
			ret, ok := in.(*ssa.Return)
			if !ok || eidx >= len(ret.Results) {
				return
			}
			n++
			ev := resolveSpill(ret.Results[eidx])
			if isNilConst(ev) {
				return
			}
			if carriesSource != nil && !carriesSource(ev) {
				return // an error of another kind (fresh syntax error ...): not the one being tracked
			}
			if v, ok := isConstBool(resolveSpill(ret.Results[bi])); !ok || !v {
				holds = false
			}
		})
		if holds && n > 0 {
			return bi, true
		}
	}
	return 0, false
}

func taintKey(m map[ssa.Value]bool) string {
	var ks []string
	for v := range m {
		ks = append(ks, v.Name()+"@"+itoa(int(v.Pos())))
	}
	sort.Strings(ks)
	return strings.Join(ks, ",")
}

// errResult returns the SSA value carrying result idx of call c ("" if the result is discarded).
func errResultOf(c *ssa.Call, idx int) ssa.Value {
	n := c.Common().Signature().Results().Len()
	if n == 1 {
		if c.Referrers() == nil || len(*c.Referrers()) == 0 {
			return nil
		}
		return c
	}
	if c.Referrers() == nil {
		return nil
	}
	for _, ref := range *c.Referrers() {
		if ex, ok := ref.(*ssa.Extract); ok && ex.Index == idx {
			if ex.Referrers() == nil || len(*ex.Referrers()) == 0 {
				return nil
			}
			return ex
		}
	}
	return nil
}

// checkErrFlow explores all paths from the instruction defining e.
func checkErrFlow(fn *ssa.Function, def ssa.Instruction, e ssa.Value, cfg errflowCfg) []errDrop {
	errIdx := errorResultIndex(fn.Signature)
	type state struct {
		b      *ssa.BasicBlock
		i      int
		taint  map[ssa.Value]bool
		from   *ssa.BasicBlock
		prev   int
		assume map[ssa.Value]bool // nil-ness / truthiness of values tested along the path
		slots  map[ssa.Value]ssa.Value // local slot -> value last stored on this path
	}
	var drops []errDrop
	seen := map[string]bool{}
	corrIdx, hasCorr := -1, false
	if dc, ok := def.(*ssa.Call); ok {
		corrIdx, hasCorr = correlatedBool(dc, cfg.carries)
	}
	start := posOfInstr(def)
	queue := []state{{start.b, start.i + 1, map[ssa.Value]bool{e: true}, nil, -1, map[ssa.Value]bool{}, map[ssa.Value]ssa.Value{}}}
	pathOf := func(qi int) []*ssa.BasicBlock {
		var p []*ssa.BasicBlock
		for k := qi; k >= 0; k = queue[k].prev {
			p = append([]*ssa.BasicBlock{queue[k].b}, p...)
		}
		return p
	}
	isTainted := func(t map[ssa.Value]bool, v ssa.Value) bool {
		if v == nil {
			return false
		}
		if t[v] {
			return true
		}
		// load of a tainted local slot
		if u, ok := v.(*ssa.UnOp); ok && u.Op == token.MUL {
			if t[u.X] {
				return true
			}
		}
		return false
	}
	for qi := 0; qi < len(queue) && qi < 50000; qi++ {
		st := queue[qi]
		t := map[ssa.Value]bool{}
		for k := range st.taint {
			t[k] = true
		}
		b := st.b
		slots := map[ssa.Value]ssa.Value{}
		for k, v := range st.slots {
			slots[k] = v
		}
		canon := func(v ssa.Value) ssa.Value {
			if u, ok := v.(*ssa.UnOp); ok && u.Op == token.MUL {
				if sv, ok := slots[u.X]; ok {
					return sv
				}
			}
			return v
		}
		// phis at block entry (only when entering from a predecessor)
		if st.i == 0 && st.from != nil {
			pi := -1
			for k, p := range b.Preds {
				if p == st.from {
					pi = k
				}
			}
			for _, in := range b.Instrs {
				ph, ok := in.(*ssa.Phi)
				if !ok {
					break
				}
				if pi >= 0 && isTainted(t, ph.Edges[pi]) {
					t[ph] = true
				} else {
					delete(t, ph)
				}
			}
		}
		ended := false
		for i := st.i; i < len(b.Instrs) && !ended; i++ {
			in := b.Instrs[i]
			switch x := in.(type) {
			case *ssa.Phi:
				// handled above
			case *ssa.Store:
				if a, ok := x.Addr.(*ssa.Alloc); ok {
					slots[a] = canon(x.Val)
				}
				if isTainted(t, x.Val) {
					root := addrRoot(x.Addr)
					if a, ok := root.(*ssa.Alloc); ok {
						// a local slot (named result, captured variable) or a locally built object
						// (composite literal, variadic argument array): it carries the error from now on
						t[a] = true
					} else if fv, ok := root.(*ssa.FreeVar); ok {
						t[fv] = true
					} else {
						ended = true // stored into an object reachable from outside (w.Disposition ...): propagated
					}
				} else if a, ok := x.Addr.(*ssa.Alloc); ok && t[a] {
					delete(t, a) // the slot is overwritten with something else
				} else if fv, ok := x.Addr.(*ssa.FreeVar); ok && t[fv] {
					delete(t, fv)
				}
			case *ssa.MapUpdate:
				if isTainted(t, x.Value) {
					ended = true
				}
			case *ssa.Send:
				if isTainted(t, x.X) {
					ended = true
				}
			case *ssa.Panic:
				ended = true // not a silent drop
			case *ssa.Return:
				ended = true
				ok := false
				for ri, rv := range x.Results {
					if isTainted(t, rv) && (errIdx < 0 || ri == errIdx || true) {
						ok = true
					}
				}
				if !ok && cfg.successOnly && !isSuccessReturnC(x, st.assume, canon) {
					ok = true // returns some other, provably non-nil error: not reported as success
				}
				if !ok {
					how := "returns without the error"
					if errIdx >= 0 && errIdx < len(x.Results) {
						if isNilConst(x.Results[errIdx]) {
							how = "returns a nil error"
						} else {
							how = "returns a different error value"
						}
					}
					drops = append(drops, errDrop{x, how, pathOf(qi)})
				}
			case ssa.CallInstruction:
				c := x.Common()
				anyT := false
				for _, a := range c.Args {
					if isTainted(t, a) {
						anyT = true
					}
				}
				if c.IsInvoke() && isTainted(t, c.Value) {
					anyT = true // err.Error()
				}
				if f := c.StaticCallee(); f != nil && neverReturns(f) {
					ended = true // the call never comes back (throws): not a silent drop
					break
				}
				if anyT {
					if cfg.handler != nil && cfg.handler(c) {
						ended = true
						break
					}
					if b, ok := c.Value.(*ssa.Builtin); ok && b.Name() == "panic" {
						ended = true
						break
					}
					if v, ok := in.(ssa.Value); ok {
						// the call's result derives from the error (wrapping, err.Error(), IncErrors(err) ...)
						t[v] = true
					}
				}
			default:
				if v, ok := in.(ssa.Value); ok {
					for _, op := range in.Operands(nil) {
						if op != nil && *op != nil && isTainted(t, *op) {
							switch in.(type) {
							case *ssa.MakeInterface, *ssa.ChangeInterface, *ssa.ChangeType, *ssa.Extract, *ssa.Convert, *ssa.BinOp, *ssa.TypeAssert, *ssa.UnOp, *ssa.MakeClosure, *ssa.Slice:
								t[v] = true
							}
						}
					}
				}
			}
		}
		if ended {
			continue
		}
		// successors
		var ct condTest
		haveCT := false
		var ifi *ssa.If
		if n := len(b.Instrs); n > 0 {
			if x, ok := b.Instrs[n-1].(*ssa.If); ok {
				ifi = x
				ct, haveCT = decodeIf(x)
			}
		}
		for si, s := range b.Succs {
			if haveCT && hasCorr && (ct.TrueWhen == "true" || ct.TrueWhen == "false") {
				if ex, ok := ct.V.(*ssa.Extract); ok && ex.Index == corrIdx && ssa.Instruction(asCall(ex.Tuple)) == def {
					// on the edge where the correlated flag is false the error is nil
					falseIdx := 1
					if ct.TrueWhen == "false" {
						falseIdx = 0
					}
					if si == falseIdx {
						continue
					}
				}
			}
			if haveCT && isTainted(t, ct.V) && (ct.TrueWhen == "nil" || ct.TrueWhen == "nonnil") {
				// prune the edge on which the error is nil
				nilIdx := 0
				if ct.TrueWhen == "nonnil" {
					nilIdx = 1
				}
				if si == nilIdx {
					continue
				}
			}
			if cfg.allowClassify && ifi != nil && si == 0 {
				// `if _, is := err.(*T); is {` or `if err == Sentinel {` : the matching edge handles the error
				if classifiesTainted(ifi.Cond, func(v ssa.Value) bool { return isTainted(t, v) }) {
					continue
				}
			}
			if cfg.allowClassify && ifi != nil && si == 1 {
				if u, ok := ifi.Cond.(*ssa.UnOp); ok && u.Op == token.NOT && classifiesTainted(u.X, func(v ssa.Value) bool { return isTainted(t, v) }) {
					continue
				}
				if bo, ok := ifi.Cond.(*ssa.BinOp); ok && bo.Op == token.NEQ && !isNilConst(bo.X) && !isNilConst(bo.Y) && (isTainted(t, bo.X) || isTainted(t, bo.Y)) {
					continue // err != Sentinel: the false edge is the sentinel case
				}
			}
			am := st.assume
			if haveCT {
				ct.V = canon(ct.V)
				pos := ct.TrueWhen == "true" || ct.TrueWhen == "nonnil"
				truth := pos == (si == 0)
				if prev, ok := am[ct.V]; ok {
					if prev != truth {
						continue
					}
				} else {
					am = map[ssa.Value]bool{}
					for k2, v2 := range st.assume {
						am[k2] = v2
					}
					am[ct.V] = truth
				}
			}
			k := itoa(s.Index) + "<" + itoa(b.Index) + "|" + taintKey(t) + "|" + taintKey(am) + assumeBits(am)
			if seen[k] {
				continue
			}
			seen[k] = true
			queue = append(queue, state{s, 0, t, b, qi, am, slots})
		}
	}
	return drops
}

// classifiesTainted: cond is the ok-result of a type assertion on a tainted value, or an equality
// comparison of a tainted value with a non-nil operand (sentinel error).
func classifiesTainted(cond ssa.Value, tainted func(ssa.Value) bool) bool {
	switch x := cond.(type) {
	case *ssa.Extract:
		if ta, ok := x.Tuple.(*ssa.TypeAssert); ok && ta.CommaOk && x.Index == 1 && tainted(ta.X) {
			return true
		}
	case *ssa.BinOp:
		if x.Op == token.EQL && !isNilConst(x.X) && !isNilConst(x.Y) && (tainted(x.X) || tainted(x.Y)) {
			return true
		}
	}
	return false
}

// ---- error-source propagation over the call graph ---------------------------------------------

// errSources computes the set of functions whose error result may carry an error that originated at a
// call satisfying isSource (least fixed point over "F returns a value derived from a source call").
type errSourceSet struct {
	w        *World
	isSource func(c *ssa.CallCommon) (string, bool)
	carries  map[*ssa.Function]string // function -> description of origin
}

func newErrSources(w *World, isSource func(c *ssa.CallCommon) (string, bool)) *errSourceSet {
	return newErrSourcesCut(w, isSource, nil)
}

// newErrSourcesCut: as newErrSources, but the functions in cut never become carriers (their error is a different kind).
func newErrSourcesCut(w *World, isSource func(c *ssa.CallCommon) (string, bool), cut map[*ssa.Function]bool) *errSourceSet {
	s := &errSourceSet{w: w, isSource: isSource, carries: map[*ssa.Function]string{}}
	for changed := true; changed; {
		changed = false
		for _, fn := range w.Funcs {
			if isTestFile(w, fn) || s.carries[fn] != "" || cut[fn] {
				continue
			}
			idx := errorResultIndex(fn.Signature)
			if idx < 0 {
				continue
			}
			origin := ""
			allInstrs(fn, func(in ssa.Instruction) {
				ret, ok := in.(*ssa.Return)
				if !ok || idx >= len(ret.Results) || origin != "" {
					return
				}
				dependsOn(ret.Results[idx], func(v ssa.Value) bool {
					c, ok := v.(*ssa.Call)
					if !ok {
						return false
					}
					if d, ok := s.sourceAt(c); ok {
						origin = d
						return true
					}
					return false
				})
			})
			if origin != "" {
				s.carries[fn] = origin
				changed = true
			}
		}
	}
	return s
}

// sourceAt: is call c a source (primitive, or a call to a carrying function)?
func (s *errSourceSet) sourceAt(c *ssa.Call) (string, bool) {
	cc := c.Common()
	if errorResultIndex(cc.Signature()) < 0 {
		return "", false
	}
	if d, ok := s.isSource(cc); ok {
		return d, true
	}
	if f := cc.StaticCallee(); f != nil {
		if d := s.carries[f]; d != "" {
			return d + " via " + fname(f), true
		}
		return "", false
	}
	for _, f := range s.w.Callees(c) {
		if d := s.carries[f]; d != "" {
			return d + " via " + fname(f), true
		}
	}
	return "", false
}

func sigResults(c *ssa.CallCommon) *types.Tuple { return c.Signature().Results() }

// addrRoot follows FieldAddr / IndexAddr chains to the value the address is computed from.
func addrRoot(v ssa.Value) ssa.Value {
	for i := 0; i < 10; i++ {
		switch x := v.(type) {
		case *ssa.FieldAddr:
			v = x.X
		case *ssa.IndexAddr:
			v = x.X
		default:
			return v
		}
	}
	return v
}

func asCall(v ssa.Value) *ssa.Call {
	c, _ := v.(*ssa.Call)
	return c
}

func assumeBits(m map[ssa.Value]bool) string {
	var ks []string
	for v, t := range m {
		if t {
			ks = append(ks, v.Name())
		}
	}
	sort.Strings(ks)
	return "+" + strings.Join(ks, ",")
}

// isSuccessReturnC: isSuccessReturn with the path's knowledge of local slots.
func isSuccessReturnC(ret *ssa.Return, assume map[ssa.Value]bool, canon func(ssa.Value) ssa.Value) bool {
	fn := ret.Parent()
	idx := errorResultIndex(fn.Signature)
	if idx < 0 || idx >= len(ret.Results) {
		return true
	}
	v := canon(ret.Results[idx])
	if isNilConst(v) {
		return true
	}
	if t, ok := assume[v]; ok {
		return !t
	}
	return isSuccessReturn(ret, assume)
}
