package main

// txscope.go: TXSCOPE — byte slices handed out by bolt inside a transaction must not outlive it.
//
// bolt documents that the slices returned by Cursor.First/Next/Last/Prev/Seek and Bucket.Get point into
// the memory map and are valid only for the life of the transaction.  Inside a function literal passed to
// (*bolt.DB).View / Update / Batch such a slice must not be stored (directly or inside a struct / slice
// literal) into a captured variable, a global or anything reachable from a parameter, unless it went through
// a copy (string(v), append([]byte(nil), v...), copy(dst, v), or a call that consumes it).

import (
	"go/token"
	"go/types"

	"golang.org/x/tools/go/ssa"
)

const boltPath = "github.com/boltdb/bolt"

func isBoltTxSource(c *ssa.CallCommon) bool {
	o := calleeObj(c)
	if o == nil {
		return false
	}
	n := recvNamed(o)
	if n == nil || n.Obj().Pkg() == nil || n.Obj().Pkg().Path() != boltPath {
		return false
	}
	switch n.Obj().Name() + "." + o.Name() {
	case "Cursor.First", "Cursor.Next", "Cursor.Last", "Cursor.Prev", "Cursor.Seek", "Bucket.Get":
		return true
	}
	return false
}

func isBoltTxRunner(c *ssa.CallCommon) bool {
	o := calleeObj(c)
	if o == nil {
		return false
	}
	n := recvNamed(o)
	if n == nil || n.Obj().Pkg() == nil || n.Obj().Pkg().Path() != boltPath || n.Obj().Name() != "DB" {
		return false
	}
	return o.Name() == "View" || o.Name() == "Update" || o.Name() == "Batch"
}

type txEscape struct {
	At  ssa.Instruction
	How string
}

// txClosures finds the function literals handed to bolt transactions (directly, or returned by a helper
// and then handed over: `db.Update(c.update(...))`).
func txClosures(w *World, scope func(*ssa.Function) bool) map[*ssa.Function]bool {
	out := map[*ssa.Function]bool{}
	for _, fn := range w.Funcs {
		if isTestFile(w, fn) || !scope(fn) || fn.Parent() == nil {
			continue
		}
		// a function literal whose only parameter is a *bolt.Tx: it runs inside a transaction whoever calls it
		// (handed to DB.View/Update/Batch directly, returned by a helper, or called from another such closure)
		ps := fn.Signature.Params()
		if ps.Len() != 1 {
			continue
		}
		if n := namedOf(ps.At(0).Type()); n != nil && n.Obj().Pkg() != nil && n.Obj().Pkg().Path() == boltPath && n.Obj().Name() == "Tx" {
			out[fn] = true
		}
	}
	return out
}

// checkTxScope: forward taint inside one transaction closure.
func checkTxScope(fn *ssa.Function) (sources int, escapes []txEscape) {
	tainted := map[ssa.Value]bool{}
	isByteSlice := func(t types.Type) bool {
		s, ok := t.Underlying().(*types.Slice)
		if !ok {
			return false
		}
		b, ok := s.Elem().Underlying().(*types.Basic)
		return ok && b.Kind() == types.Byte
	}
	// iterate to a fixed point (loops, phis)
	for changed := true; changed; {
		changed = false
		mark := func(v ssa.Value) {
			if v != nil && !tainted[v] {
				tainted[v] = true
				changed = true
			}
		}
		allInstrs(fn, func(in ssa.Instruction) {
			switch x := in.(type) {
			case *ssa.Call:
				c := x.Common()
				if isBoltTxSource(c) {
					if !tainted[x] {
						sources++
					}
					mark(x)
					return
				}
				// append(dst, src...) with a tainted element array / slice operand: the result shares the elements only
				// when the tainted thing is a *container of slices*; append([]byte(nil), v...) copies bytes.
				if b, ok := c.Value.(*ssa.Builtin); ok && b.Name() == "append" && len(c.Args) == 2 {
					if isByteSlice(x.Type()) {
						// bytes are copied unless the first operand is the tainted slice itself
						if tainted[c.Args[0]] {
							mark(x)
						}
						return
					}
					if tainted[c.Args[0]] || tainted[c.Args[1]] {
						mark(x)
					}
				}
			case *ssa.Extract:
				if tainted[x.Tuple] && isByteSlice(x.Type()) {
					mark(x)
				}
			case *ssa.Phi:
				for _, e := range x.Edges {
					if tainted[e] {
						mark(x)
					}
				}
			case *ssa.Slice:
				if tainted[x.X] {
					mark(x)
				}
			case *ssa.MakeInterface:
				if tainted[x.X] {
					mark(x)
				}
			case *ssa.ChangeType:
				if tainted[x.X] {
					mark(x)
				}
			case *ssa.Convert:
				// []byte -> string copies; named []byte conversions keep the memory
				if tainted[x.X] && isByteSlice(x.Type()) {
					mark(x)
				}
			case *ssa.UnOp:
				if x.Op == token.MUL && tainted[x.X] {
					mark(x) // load from a tainted local object
				}
			case *ssa.Store:
				if tainted[x.Val] {
					root := addrRoot(x.Addr)
					if a, ok := root.(*ssa.Alloc); ok {
						mark(a) // a local struct / array now holds the slice
						mark(x.Addr)
					}
				}
			case *ssa.FieldAddr:
				if tainted[x.X] {
					mark(x)
				}
			case *ssa.IndexAddr:
				if tainted[x.X] {
					mark(x)
				}
			}
		})
	}
	// escapes
	allInstrs(fn, func(in ssa.Instruction) {
		switch x := in.(type) {
		case *ssa.Store:
			if !tainted[x.Val] {
				return
			}
			switch r := addrRoot(x.Addr).(type) {
			case *ssa.FreeVar:
				escapes = append(escapes, txEscape{in, "stored into the captured variable " + r.Name()})
			case *ssa.Global:
				escapes = append(escapes, txEscape{in, "stored into the package variable " + r.Name()})
			case *ssa.Parameter:
				escapes = append(escapes, txEscape{in, "stored through parameter " + r.Name()})
			case *ssa.UnOp:
				// *p = v where p was loaded from somewhere non-local
				if _, local := addrRoot(r.X).(*ssa.Alloc); !local {
					escapes = append(escapes, txEscape{in, "stored through a pointer that outlives the transaction"})
				}
			}
		case *ssa.MapUpdate:
			if tainted[x.Value] || tainted[x.Key] {
				if _, local := x.Map.(*ssa.MakeMap); !local {
					escapes = append(escapes, txEscape{in, "stored into a map that outlives the transaction"})
				}
			}
		case *ssa.Send:
			if tainted[x.X] {
				escapes = append(escapes, txEscape{in, "sent on a channel"})
			}
		case *ssa.Go:
			for _, a := range x.Common().Args {
				if tainted[a] {
					escapes = append(escapes, txEscape{in, "handed to a goroutine"})
				}
			}
		}
	})
	return
}

func ruleTxScope(scopePkgs ...string) ruleFn {
	return func(w *World, r *Report) {
		r.Rule("TXSCOPE", "byte slices obtained from bolt (Cursor.First/Next/Last/Prev/Seek, Bucket.Get) inside a View/Update/Batch closure are not stored into captured variables, globals, parameters' objects, long-lived maps, channels or goroutines without a copy: bolt invalidates them when the transaction ends (\"data handed back by a back end stays intact while later writes proceed\")", 1)
		inScope := func(fn *ssa.Function) bool {
			p := w.RelPkg(fn)
			for _, s := range scopePkgs {
				if p == s {
					return true
				}
			}
			return false
		}
		cl := txClosures(w, inScope)
		var fns []*ssa.Function
		for f := range cl {
			fns = append(fns, f)
		}
		sortFuncs(fns)
		total := 0
		for _, f := range fns {
			n, esc := checkTxScope(f)
			total += n
			key := "closure in " + fname(outermost(f)) + " (" + f.Name() + ")"
			if len(esc) > 0 {
				r.violation("TXSCOPE", key, w.PosOf(esc[0].At), "a transaction-owned byte slice is "+esc[0].How)
			} else {
				r.ok("TXSCOPE", key, w.Pos(f.Pos()), "no transaction-owned slice escapes ("+itoa(n)+" sources)")
			}
		}
		r.stat("TXSCOPE.tx_closures", len(fns))
		r.stat("TXSCOPE.tx_sources", total)
	}
}

func sortFuncs(fns []*ssa.Function) {
	for i := 1; i < len(fns); i++ {
		for j := i; j > 0 && (fns[j].String() < fns[j-1].String() || (fns[j].String() == fns[j-1].String() && fns[j].Pos() < fns[j-1].Pos())); j-- {
			fns[j], fns[j-1] = fns[j-1], fns[j]
		}
	}
}
