package main

// ssahelp.go: small SSA / CFG helpers shared by the rules.

import (
	"go/ast"
	"go/constant"
	"go/token"
	"go/types"
	"sort"
	"strings"

	"golang.org/x/tools/go/ssa"
)

// ---- calls --------------------------------------------------------------------------------

// callOf returns the CallCommon of a Call / Go / Defer instruction.
func callOf(in ssa.Instruction) *ssa.CallCommon {
	if c, ok := in.(ssa.CallInstruction); ok {
		return c.Common()
	}
	return nil
}

// calleeObj returns the types.Func named by the call: the interface method for an invoke,
// the declared function/method for a static call, nil for a dynamic call of a func value.
func calleeObj(c *ssa.CallCommon) *types.Func {
	if c == nil {
		return nil
	}
	if c.IsInvoke() {
		return c.Method
	}
	if f := c.StaticCallee(); f != nil {
		if o, ok := f.Object().(*types.Func); ok {
			return o
		}
	}
	return nil
}

func staticCallee(in ssa.Instruction) *ssa.Function {
	if c := callOf(in); c != nil {
		return c.StaticCallee()
	}
	return nil
}

// recvNamed returns the named type of the receiver of a method object (through a pointer).
func recvNamed(f *types.Func) *types.Named {
	if f == nil {
		return nil
	}
	sig, ok := f.Type().(*types.Signature)
	if !ok || sig.Recv() == nil {
		return nil
	}
	return namedOf(sig.Recv().Type())
}

func namedOf(t types.Type) *types.Named {
	if t == nil {
		return nil
	}
	if p, ok := t.(*types.Pointer); ok {
		t = p.Elem()
	}
	t = types.Unalias(t)
	if n, ok := t.(*types.Named); ok {
		return n
	}
	return nil
}

func isNamed(t types.Type, pkgPath, name string) bool {
	n := namedOf(t)
	return n != nil && n.Obj().Name() == name && n.Obj().Pkg() != nil && n.Obj().Pkg().Path() == pkgPath
}

// isMethodCall reports whether the call targets method `name` either through interface iface
// (invoke) or statically on a type implementing iface.
func isIfaceMethodCall(c *ssa.CallCommon, ifaceNamed *types.Named, name string) bool {
	o := calleeObj(c)
	if o == nil || o.Name() != name {
		return false
	}
	iface := ifaceNamed.Underlying().(*types.Interface)
	if c.IsInvoke() {
		// the interface the method belongs to must be (or embed) ifaceNamed's method
		for i := 0; i < iface.NumMethods(); i++ {
			if iface.Method(i) == o {
				return true
			}
		}
		// different interface with the same method on a type that also implements iface: compare by receiver interface identity
		rt := c.Value.Type()
		if types.Identical(rt, ifaceNamed) {
			return true
		}
		return false
	}
	rn := recvNamed(o)
	if rn == nil {
		return false
	}
	return types.Implements(types.NewPointer(rn), iface) || types.Implements(rn, iface)
}

// isFuncNamed: static call to package-level function pkgPath.name
func isPkgFunc(o *types.Func, pkgPath, name string) bool {
	if o == nil || o.Pkg() == nil {
		return false
	}
	if sig, ok := o.Type().(*types.Signature); ok && sig.Recv() != nil {
		return false
	}
	return o.Pkg().Path() == pkgPath && o.Name() == name
}

// isMethodOf: method `name` declared on named type pkgPath.typ
func isMethodOf(o *types.Func, pkgPath, typ, name string) bool {
	if o == nil || o.Name() != name {
		return false
	}
	n := recvNamed(o)
	return n != nil && n.Obj().Name() == typ && n.Obj().Pkg() != nil && n.Obj().Pkg().Path() == pkgPath
}

// ---- instruction-level reachability -------------------------------------------------------

type ipos struct {
	b *ssa.BasicBlock
	i int
}

func posOfInstr(in ssa.Instruction) ipos {
	b := in.Block()
	for i, x := range b.Instrs {
		if x == in {
			return ipos{b, i}
		}
	}
	return ipos{b, 0}
}

// edgeFilter lets callers delete CFG edges (from block -> succ index).
type edgeFilter func(from *ssa.BasicBlock, succIdx int) bool // true = edge allowed

// reach explores forward from the instruction after `start` (or from function entry when start is nil),
// stops at instructions for which barrier returns true (they are not crossed and not reported),
// and returns the first instruction satisfying target, or nil.  The witness is the block path.
func reach(fn *ssa.Function, start ssa.Instruction, target, barrier func(ssa.Instruction) bool, ef edgeFilter) (ssa.Instruction, []*ssa.BasicBlock) {
	if fn == nil || len(fn.Blocks) == 0 {
		return nil, nil
	}
	type item struct {
		p    ipos
		prev int
	}
	var queue []item
	seenBlockStart := map[*ssa.BasicBlock]bool{}
	if start == nil {
		queue = append(queue, item{ipos{fn.Blocks[0], 0}, -1})
		seenBlockStart[fn.Blocks[0]] = true
	} else {
		p := posOfInstr(start)
		queue = append(queue, item{ipos{p.b, p.i + 1}, -1})
	}
	for qi := 0; qi < len(queue); qi++ {
		it := queue[qi]
		b := it.p.b
		stopped := false
		for i := it.p.i; i < len(b.Instrs); i++ {
			in := b.Instrs[i]
			if target != nil && target(in) {
				// build witness
				var path []*ssa.BasicBlock
				for k := qi; k >= 0; k = queue[k].prev {
					path = append([]*ssa.BasicBlock{queue[k].p.b}, path...)
				}
				return in, path
			}
			if barrier != nil && barrier(in) {
				stopped = true
				break
			}
		}
		if stopped {
			continue
		}
		for si, s := range b.Succs {
			if ef != nil && !ef(b, si) {
				continue
			}
			if seenBlockStart[s] {
				continue
			}
			seenBlockStart[s] = true
			queue = append(queue, item{ipos{s, 0}, qi})
		}
	}
	return nil, nil
}

// blocksReachable returns the set of blocks reachable from entry under the edge filter.
func blocksReachable(fn *ssa.Function, ef edgeFilter) map[*ssa.BasicBlock]bool {
	seen := map[*ssa.BasicBlock]bool{}
	if len(fn.Blocks) == 0 {
		return seen
	}
	stack := []*ssa.BasicBlock{fn.Blocks[0]}
	seen[fn.Blocks[0]] = true
	for len(stack) > 0 {
		b := stack[len(stack)-1]
		stack = stack[:len(stack)-1]
		for si, s := range b.Succs {
			if ef != nil && !ef(b, si) {
				continue
			}
			if !seen[s] {
				seen[s] = true
				stack = append(stack, s)
			}
		}
	}
	return seen
}

func blockPathString(w *World, path []*ssa.BasicBlock) []string {
	var out []string
	for _, b := range path {
		where := ""
		for _, in := range b.Instrs {
			if in.Pos().IsValid() {
				where = w.Pos(in.Pos())
				break
			}
		}
		out = append(out, "b"+itoa(b.Index)+"@"+where)
	}
	return out
}

func itoa(i int) string {
	if i == 0 {
		return "0"
	}
	neg := i < 0
	if neg {
		i = -i
	}
	var b []byte
	for i > 0 {
		b = append([]byte{byte('0' + i%10)}, b...)
		i /= 10
	}
	if neg {
		b = append([]byte{'-'}, b...)
	}
	return string(b)
}

// ---- branch decoding ----------------------------------------------------------------------

// condTest describes what an If tests: value V compared to nil / bool.
type condTest struct {
	V        ssa.Value // the tested value (error, pointer, bool ...)
	TrueWhen string    // "nonnil" | "nil" | "true" | "false": meaning of the If's true edge for V
}

// decodeIf decodes `if v != nil`, `if v == nil`, `if v`, `if !v` (and nil-on-the-left forms).
func decodeIf(in *ssa.If) (condTest, bool) {
	c := in.Cond
	neg := false
	for {
		if u, ok := c.(*ssa.UnOp); ok && u.Op == token.NOT {
			neg = !neg
			c = u.X
			continue
		}
		break
	}
	if b, ok := c.(*ssa.BinOp); ok && (b.Op == token.NEQ || b.Op == token.EQL) {
		var v ssa.Value
		if isNilConst(b.Y) {
			v = b.X
		} else if isNilConst(b.X) {
			v = b.Y
		}
		if v != nil {
			ne := b.Op == token.NEQ
			if neg {
				ne = !ne
			}
			if ne {
				return condTest{v, "nonnil"}, true
			}
			return condTest{v, "nil"}, true
		}
		// comparison with constant bool
		if cb, ok := b.Y.(*ssa.Const); ok && cb.Value != nil && cb.Value.Kind() == constant.Bool {
			val := constant.BoolVal(cb.Value)
			eq := b.Op == token.EQL
			if neg {
				eq = !eq
			}
			if eq == val {
				return condTest{b.X, "true"}, true
			}
			return condTest{b.X, "false"}, true
		}
		return condTest{}, false
	}
	if neg {
		return condTest{c, "false"}, true
	}
	return condTest{c, "true"}, true
}

func isNilConst(v ssa.Value) bool {
	c, ok := v.(*ssa.Const)
	return ok && c.Value == nil
}

func isConstBool(v ssa.Value) (bool, bool) {
	c, ok := v.(*ssa.Const)
	if !ok || c.Value == nil || c.Value.Kind() != constant.Bool {
		return false, false
	}
	return constant.BoolVal(c.Value), true
}

func constString(v ssa.Value) (string, bool) {
	c, ok := v.(*ssa.Const)
	if !ok || c.Value == nil || c.Value.Kind() != constant.String {
		return "", false
	}
	return constant.StringVal(c.Value), true
}

// resultOf reports whether v is (derived from) result index idx of call c:
// the call value itself (single result), or an Extract of it, possibly through
// ChangeType/MakeInterface/ChangeInterface conversions, and phi nodes all of whose
// edges are such values or the nil constant.
func derivesFromCall(v ssa.Value, isCall func(*ssa.Call) bool, idx int) bool {
	return derivesFromCallRec(v, isCall, idx, map[ssa.Value]bool{})
}

func derivesFromCallRec(v ssa.Value, isCall func(*ssa.Call) bool, idx int, seen map[ssa.Value]bool) bool {
	if seen[v] {
		return false
	}
	seen[v] = true
	switch x := v.(type) {
	case *ssa.Call:
		if !isCall(x) {
			return false
		}
		// single result
		return x.Common().Signature().Results().Len() == 1 || idx < 0
	case *ssa.Extract:
		if c, ok := x.Tuple.(*ssa.Call); ok && isCall(c) {
			return idx < 0 || x.Index == idx
		}
		return false
	case *ssa.ChangeType:
		return derivesFromCallRec(x.X, isCall, idx, seen)
	case *ssa.ChangeInterface:
		return derivesFromCallRec(x.X, isCall, idx, seen)
	case *ssa.MakeInterface:
		return derivesFromCallRec(x.X, isCall, idx, seen)
	case *ssa.Phi:
		any := false
		for _, e := range x.Edges {
			if isNilConst(e) {
				continue
			}
			if derivesFromCallRec(e, isCall, idx, seen) {
				any = true
			} else {
				return false
			}
		}
		return any
	case *ssa.UnOp:
		// load of a local alloc that is only stored from such values
		if x.Op == token.MUL {
			if a, ok := x.X.(*ssa.Alloc); ok {
				any := false
				for _, ref := range *a.Referrers() {
					if st, ok := ref.(*ssa.Store); ok && st.Addr == a {
						if isNilConst(st.Val) {
							continue
						}
						if derivesFromCallRec(st.Val, isCall, idx, seen) {
							any = true
						} else {
							return false
						}
					}
				}
				return any
			}
		}
	}
	return false
}

// ---- misc ---------------------------------------------------------------------------------

func allInstrs(fn *ssa.Function, f func(ssa.Instruction)) {
	for _, b := range fn.Blocks {
		if b == fn.Recover && len(b.Preds) == 0 {
			// the block a recovered panic resumes in: it only reloads the result slots and returns them; it is
			// not part of any normal path (RECOVER-RESULT reasons about the deferred function itself)
			continue
		}
		for _, in := range b.Instrs {
			f(in)
		}
	}
}

// withAnon visits fn and every function literal nested in it.
func withAnon(fn *ssa.Function, f func(*ssa.Function)) {
	f(fn)
	for _, a := range fn.AnonFuncs {
		withAnon(a, f)
	}
}

func isErrorType(t types.Type) bool {
	return types.Identical(t, types.Universe.Lookup("error").Type())
}

// errorResultIndex returns the index of the last result when it is of type error, else -1.
func errorResultIndex(sig *types.Signature) int {
	n := sig.Results().Len()
	if n == 0 {
		return -1
	}
	if isErrorType(sig.Results().At(n - 1).Type()) {
		return n - 1
	}
	return -1
}

func outermost(fn *ssa.Function) *ssa.Function {
	for fn.Parent() != nil {
		fn = fn.Parent()
	}
	return fn
}

// isTestFile: code in _test.go files and test helpers (functions taking *testing.T / *testing.B).
func isTestFile(w *World, fn *ssa.Function) bool {
	fn = outermost(fn)
	ps := fn.Signature.Params()
	for i := 0; i < ps.Len(); i++ {
		if n := namedOf(ps.At(i).Type()); n != nil && n.Obj().Pkg() != nil && n.Obj().Pkg().Path() == "testing" {
			return true
		}
	}
	p := fn.Pos()
	if !p.IsValid() {
		return false
	}
	return strings.HasSuffix(w.Fset.Position(p).Filename, "_test.go")
}

// fieldOf decodes v as a field address / field value of a struct and returns the struct's named
// type and the field name.
func fieldOf(v ssa.Value) (*types.Named, string, ssa.Value, bool) {
	switch x := v.(type) {
	case *ssa.FieldAddr:
		st := x.X.Type()
		n := namedOf(st)
		if n == nil {
			return nil, "", nil, false
		}
		s, ok := n.Underlying().(*types.Struct)
		if !ok {
			return nil, "", nil, false
		}
		return n, s.Field(x.Field).Name(), x.X, true
	case *ssa.Field:
		n := namedOf(x.X.Type())
		if n == nil {
			return nil, "", nil, false
		}
		s, ok := n.Underlying().(*types.Struct)
		if !ok {
			return nil, "", nil, false
		}
		return n, s.Field(x.Field).Name(), x.X, true
	}
	return nil, "", nil, false
}

// loadedField: v is `*(&x.F)` (a load of field F); returns the owner type and field name.
func loadedField(v ssa.Value) (*types.Named, string, ssa.Value, bool) {
	if u, ok := v.(*ssa.UnOp); ok && u.Op == token.MUL {
		return fieldOf(u.X)
	}
	if f, ok := v.(*ssa.Field); ok {
		return fieldOf(f)
	}
	return nil, "", nil, false
}

func structOf(n *types.Named) *types.Struct {
	if n == nil {
		return nil
	}
	s, _ := n.Underlying().(*types.Struct)
	return s
}

// reachPS is reach with a little path sensitivity: along one path, two branches that test the same SSA
// value (if x / if !x / if x == nil ...) are taken consistently.  Blocks are revisited per assumption
// set; the exploration is bounded.
func reachPS(fn *ssa.Function, start ssa.Instruction, target, barrier func(ssa.Instruction) bool, ef edgeFilter) (ssa.Instruction, []*ssa.BasicBlock) {
	if fn == nil || len(fn.Blocks) == 0 {
		return nil, nil
	}
	type assume map[ssa.Value]bool // value -> "succ[0] condition holds" normalised to V's truthiness
	type item struct {
		b    *ssa.BasicBlock
		i    int
		as   string
		amap map[ssa.Value]bool
		prev int
	}
	keyOf := func(m map[ssa.Value]bool) string {
		var ks []string
		for v, t := range m {
			ks = append(ks, v.Name()+"="+map[bool]string{true: "1", false: "0"}[t])
		}
		sort.Strings(ks)
		return strings.Join(ks, ",")
	}
	var queue []item
	seen := map[string]bool{}
	if start == nil {
		queue = append(queue, item{fn.Blocks[0], 0, "", map[ssa.Value]bool{}, -1})
	} else {
		p := posOfInstr(start)
		queue = append(queue, item{p.b, p.i + 1, "", map[ssa.Value]bool{}, -1})
	}
	for qi := 0; qi < len(queue) && qi < 20000; qi++ {
		it := queue[qi]
		stopped := false
		for i := it.i; i < len(it.b.Instrs); i++ {
			in := it.b.Instrs[i]
			if target != nil && target(in) {
				var path []*ssa.BasicBlock
				for k := qi; k >= 0; k = queue[k].prev {
					path = append([]*ssa.BasicBlock{queue[k].b}, path...)
				}
				return in, path
			}
			if barrier != nil && barrier(in) {
				stopped = true
				break
			}
		}
		if stopped {
			continue
		}
		var ct condTest
		haveCT := false
		if n := len(it.b.Instrs); n > 0 {
			if ifi, ok := it.b.Instrs[n-1].(*ssa.If); ok {
				ct, haveCT = decodeIf(ifi)
			}
		}
		for si, s := range it.b.Succs {
			if ef != nil && !ef(it.b, si) {
				continue
			}
			am := it.amap
			if haveCT {
				// truthiness of V on this edge: succ[0] <=> TrueWhen holds
				pos := ct.TrueWhen == "true" || ct.TrueWhen == "nonnil"
				truth := pos == (si == 0)
				if prev, ok := it.amap[ct.V]; ok {
					if prev != truth {
						continue // inconsistent with an earlier test of the same value
					}
				} else {
					am = map[ssa.Value]bool{}
					for k, v := range it.amap {
						am[k] = v
					}
					am[ct.V] = truth
				}
			}
			k := s.String() + "|" + itoa(s.Index) + "|" + keyOf(am)
			if seen[k] {
				continue
			}
			seen[k] = true
			queue = append(queue, item{s, 0, "", am, qi})
		}
	}
	return nil, nil
}

// reachPSA: like reachPS, but the target predicate also sees what the path assumes about tested values
// (value -> "truthy": true / non-nil).  Used to tell success returns from error returns.
func reachPSA(fn *ssa.Function, start ssa.Instruction, target func(ssa.Instruction, map[ssa.Value]bool) bool, barrier func(ssa.Instruction) bool, ef edgeFilter) (ssa.Instruction, []*ssa.BasicBlock) {
	if fn == nil || len(fn.Blocks) == 0 {
		return nil, nil
	}
	type item struct {
		b    *ssa.BasicBlock
		i    int
		amap map[ssa.Value]bool
		prev int
	}
	keyOf := func(m map[ssa.Value]bool) string {
		var ks []string
		for v, t := range m {
			ks = append(ks, v.Name()+"="+map[bool]string{true: "1", false: "0"}[t])
		}
		sort.Strings(ks)
		return strings.Join(ks, ",")
	}
	var queue []item
	seen := map[string]bool{}
	if start == nil {
		queue = append(queue, item{fn.Blocks[0], 0, map[ssa.Value]bool{}, -1})
	} else {
		p := posOfInstr(start)
		queue = append(queue, item{p.b, p.i + 1, map[ssa.Value]bool{}, -1})
	}
	for qi := 0; qi < len(queue) && qi < 20000; qi++ {
		it := queue[qi]
		stopped := false
		for i := it.i; i < len(it.b.Instrs); i++ {
			in := it.b.Instrs[i]
			if target != nil && target(in, it.amap) {
				var path []*ssa.BasicBlock
				for k := qi; k >= 0; k = queue[k].prev {
					path = append([]*ssa.BasicBlock{queue[k].b}, path...)
				}
				return in, path
			}
			if barrier != nil && barrier(in) {
				stopped = true
				break
			}
		}
		if stopped {
			continue
		}
		var ct condTest
		haveCT := false
		if n := len(it.b.Instrs); n > 0 {
			if ifi, ok := it.b.Instrs[n-1].(*ssa.If); ok {
				ct, haveCT = decodeIf(ifi)
			}
		}
		for si, s := range it.b.Succs {
			if ef != nil && !ef(it.b, si) {
				continue
			}
			am := it.amap
			if haveCT {
				pos := ct.TrueWhen == "true" || ct.TrueWhen == "nonnil"
				truth := pos == (si == 0)
				if prev, ok := it.amap[ct.V]; ok {
					if prev != truth {
						continue
					}
				} else {
					am = map[ssa.Value]bool{}
					for k, v := range it.amap {
						am[k] = v
					}
					am[ct.V] = truth
				}
			}
			// phi resolution: a phi whose incoming value on this edge has a known truthiness inherits it
			for _, in := range s.Instrs {
				ph, ok := in.(*ssa.Phi)
				if !ok {
					break
				}
				for pi, p := range s.Preds {
					if p == it.b {
						e := ph.Edges[pi]
						if t, ok := am[e]; ok {
							if am2 := am; true {
								am = map[ssa.Value]bool{}
								for k, v := range am2 {
									am[k] = v
								}
								am[ph] = t
							}
						} else if isNilConst(e) || isFreshError(e) {
							am2 := am
							am = map[ssa.Value]bool{}
							for k, v := range am2 {
								am[k] = v
							}
							am[ph] = !isNilConst(e)
						} else {
							if _, had := am[ph]; had {
								am2 := am
								am = map[ssa.Value]bool{}
								for k, v := range am2 {
									if k != ssa.Value(ph) {
										am[k] = v
									}
								}
							}
						}
					}
				}
			}
			k := itoa(s.Index) + "|" + keyOf(am)
			if seen[k] {
				continue
			}
			seen[k] = true
			queue = append(queue, item{s, 0, am, qi})
		}
	}
	return nil, nil
}

// isSuccessReturn: a Return whose error result is not known to be non-nil on this path (nil constant,
// a value assumed nil, or unknown) and is not a freshly made error.
func isSuccessReturn(in ssa.Instruction, assume map[ssa.Value]bool) bool {
	ret, ok := in.(*ssa.Return)
	if !ok {
		return false
	}
	fn := in.Parent()
	idx := errorResultIndex(fn.Signature)
	if idx < 0 || idx >= len(ret.Results) {
		return true
	}
	v := resolveSpill(ret.Results[idx])
	if isNilConst(v) {
		return true
	}
	if t, ok := assume[v]; ok {
		return !t
	}
	// a freshly constructed error (call result that is never nil-tested, allocation, global sentinel)
	switch x := v.(type) {
	case *ssa.Call:
		if f := x.Common().StaticCallee(); f != nil {
			if f.Pkg != nil && (f.Pkg.Pkg.Path() == "fmt" || f.Pkg.Pkg.Path() == "errors") {
				return false
			}
			if strings.HasPrefix(f.Name(), "New") && strings.HasSuffix(f.Name(), "Error") {
				return false
			}
		}
	case *ssa.MakeInterface:
		if _, ok := x.X.(*ssa.Alloc); ok {
			return false
		}
		if c, ok := x.X.(*ssa.Call); ok {
			if f := c.Common().StaticCallee(); f != nil && strings.HasPrefix(f.Name(), "New") {
				return false
			}
		}
	case *ssa.UnOp:
		if _, ok := x.X.(*ssa.Global); ok {
			return false // package-level sentinel error
		}
	}
	return true
}

// resolveSpill undoes go/ssa's spilling of results in functions with defers: `*slot = v; rundefers;
// t = *slot; return t`.  If v is a load of a local slot and the same block stores to that slot before
// the load, the stored value is returned.
func resolveSpill(v ssa.Value) ssa.Value {
	for i := 0; i < 4; i++ {
		n := resolveSpill1(v)
		if n == v {
			return v
		}
		v = n
	}
	return v
}

func resolveSpill1(v ssa.Value) ssa.Value {
	u, ok := v.(*ssa.UnOp)
	if !ok || u.Op != token.MUL {
		return v
	}
	a, ok := u.X.(*ssa.Alloc)
	if !ok {
		return v
	}
	b := u.Block()
	var last ssa.Value
	for _, in := range b.Instrs {
		if in == ssa.Instruction(u) {
			break
		}
		if st, ok := in.(*ssa.Store); ok && st.Addr == a {
			last = st.Val
		}
	}
	if last != nil {
		return last
	}
	// a variable that lives in a cell because a closure reads it: the one store that reaches this load — it dominates
	// the load, every other store to the cell lies before it and cannot run again after it, and no closure writes the cell
	var stores []*ssa.Store
	for _, ref := range *a.Referrers() {
		switch x := ref.(type) {
		case *ssa.Store:
			if x.Addr == ssa.Value(a) {
				stores = append(stores, x)
			}
		case *ssa.MakeClosure:
			h, _ := x.Fn.(*ssa.Function)
			if h == nil {
				return v
			}
			for k, bnd := range x.Bindings {
				if bnd != ssa.Value(a) || k >= len(h.FreeVars) {
					continue
				}
				for _, fr := range *h.FreeVars[k].Referrers() {
					if st, isS := fr.(*ssa.Store); isS && st.Addr == ssa.Value(h.FreeVars[k]) {
						return v
					}
					if _, isU := fr.(*ssa.UnOp); !isU {
						if _, isS := fr.(*ssa.Store); !isS {
							return v // handed on: not followed
						}
					}
				}
			}
		case *ssa.UnOp:
		default:
			return v // the address escapes otherwise
		}
	}
	var reaching *ssa.Store
	for _, st := range stores {
		if !instrDominates(st, u) {
			continue
		}
		if reaching == nil || instrDominates(reaching, st) {
			reaching = st
		}
	}
	if reaching == nil {
		return v
	}
	for _, st := range stores {
		if st == reaching {
			continue
		}
		if !instrDominates(st, reaching) || blockReaches(reaching.Block(), st.Block(), nil) && st.Block() != reaching.Block() {
			return v
		}
		if st.Block() == reaching.Block() && blockInLoop(st.Block()) {
			return v
		}
	}
	return reaching.Val
}

// blockInLoop: can the block reach itself?
func blockInLoop(b *ssa.BasicBlock) bool {
	for _, s := range b.Succs {
		if blockReaches(s, b, nil) {
			return true
		}
	}
	return false
}

// assignedToNamedResult: in the syntax of fn, is the call at c's position the right-hand side of an assignment
// whose left-hand side includes the identifier `name` (the named error result)?
func assignedToNamedResult(w *World, fn *ssa.Function, c *ssa.Call, name string) bool {
	syn := fn.Syntax()
	if syn == nil {
		return false
	}
	found := false
	ast.Inspect(syn, func(n ast.Node) bool {
		as, ok := n.(*ast.AssignStmt)
		if !ok || found {
			return true
		}
		for _, rhs := range as.Rhs {
			call, ok := rhs.(*ast.CallExpr)
			if !ok {
				continue
			}
			if call.Lparen != c.Pos() && call.Pos() != c.Pos() {
				continue
			}
			for _, lhs := range as.Lhs {
				if id, ok := lhs.(*ast.Ident); ok && id.Name == name {
					found = true
				}
			}
		}
		return true
	})
	return found
}

// isFreshError: v is a newly constructed, hence non-nil, error value.
func isFreshError(v ssa.Value) bool {
	switch x := v.(type) {
	case *ssa.Call:
		if f := x.Common().StaticCallee(); f != nil {
			if f.Pkg != nil && (f.Pkg.Pkg.Path() == "fmt" && f.Name() == "Errorf" || f.Pkg.Pkg.Path() == "errors" && f.Name() == "New") {
				return true
			}
			if strings.HasPrefix(f.Name(), "New") && strings.HasSuffix(f.Name(), "Error") {
				return true
			}
		}
	case *ssa.MakeInterface:
		if _, ok := x.X.(*ssa.Alloc); ok {
			return true
		}
		if c, ok := x.X.(*ssa.Call); ok {
			if f := c.Common().StaticCallee(); f != nil && strings.HasPrefix(f.Name(), "New") {
				return true
			}
		}
	case *ssa.ChangeInterface:
		return isFreshError(x.X)
	}
	return false
}

// isSuccessReturnPS: isSuccessReturn, refined by the branch the return sits on: a return whose error result
// is a value v and whose block is dominated by the edge `v != nil` is an error return.
func isSuccessReturnPS(in ssa.Instruction) bool {
	if !isSuccessReturn(in, nil) {
		return false
	}
	ret := in.(*ssa.Return)
	fn := in.Parent()
	idx := errorResultIndex(fn.Signature)
	if idx < 0 || idx >= len(ret.Results) {
		return true
	}
	v := resolveSpill(ret.Results[idx])
	if isNilConst(v) {
		return true
	}
	// an error that was made on the spot is no success
	switch t := v.(type) {
	case *ssa.MakeInterface:
		return false
	case *ssa.Call:
		if f := t.Common().StaticCallee(); f != nil && f.Pkg != nil {
			if pp := f.Pkg.Pkg.Path(); (pp == "fmt" && f.Name() == "Errorf") || (pp == "errors" && f.Name() == "New") {
				return false
			}
		}
	}
	// a named result that lives in a slot (the function defers something): what was stored into the slot last, in the
	// block of the return, decides — `err = fmt.Errorf(...); return` is a refusal
	if u, ok := v.(*ssa.UnOp); ok && u.Op == token.MUL {
		if al, isAl := u.X.(*ssa.Alloc); isAl {
			var last ssa.Value
			for _, x := range in.Block().Instrs {
				if x == ssa.Instruction(u) {
					break
				}
				if st, isSt := x.(*ssa.Store); isSt && st.Addr == ssa.Value(al) {
					last = st.Val
				}
			}
			if last != nil {
				if isNilConst(last) {
					return true
				}
				switch t := last.(type) {
				case *ssa.MakeInterface:
					return false
				case *ssa.Call:
					if f := t.Common().StaticCallee(); f != nil && f.Pkg != nil {
						if pp := f.Pkg.Pkg.Path(); (pp == "fmt" && f.Name() == "Errorf") || (pp == "errors" && f.Name() == "New") {
							return false
						}
					}
				}
				v = resolveSpill(last)
			}
		}
	}
	for _, b := range fn.Blocks {
		if len(b.Instrs) == 0 {
			continue
		}
		ifi, ok := b.Instrs[len(b.Instrs)-1].(*ssa.If)
		if !ok {
			continue
		}
		ct, ok := decodeIf(ifi)
		if !ok {
			continue
		}
		sameSlot := false
		if resolveSpill(ct.V) != v {
			// two loads of one named-result slot (a function that defers reloads its results at every return) with no
			// store to the slot between the test and the return
			lu, ok1 := v.(*ssa.UnOp)
			cu, ok2 := ct.V.(*ssa.UnOp)
			if !ok1 || !ok2 || lu.Op != token.MUL || cu.Op != token.MUL || lu.X != cu.X {
				continue
			}
			if _, isAl := lu.X.(*ssa.Alloc); !isAl {
				continue
			}
			sameSlot = true
		}
		k := -1
		switch ct.TrueWhen {
		case "nonnil":
			k = 0
		case "nil":
			k = 1
		}
		if k < 0 {
			continue
		}
		s := b.Succs[k]
		if len(s.Preds) == 1 && s.Dominates(in.Block()) {
			if sameSlot {
				clean := true
				slot := v.(*ssa.UnOp).X
				for _, ob := range fn.Blocks {
					if !s.Dominates(ob) {
						continue
					}
					for _, x := range ob.Instrs {
						if st, isSt := x.(*ssa.Store); isSt && st.Addr == slot {
							clean = false
						}
					}
				}
				if !clean {
					continue
				}
			}
			return false
		}
	}
	return true
}
