package main

// rules_expiry.go: C07 — expired items are never observable (EXP-GUARD, EXP-TRUTH, EXP-REJECT, EXP-CANON).

import (
	"go/token"
	"go/types"

	"golang.org/x/tools/go/ssa"
)

// loadedFromFactMap: v is a value read out of the state's fact map (lookup or range).
func loadedFromFactMap(owner string, v ssa.Value) bool {
	ff := stateFactField[owner]
	switch x := v.(type) {
	case *ssa.Lookup:
		return isFieldLoad(x.X, owner, ff)
	case *ssa.Next:
		rg, ok := x.Iter.(*ssa.Range)
		return ok && isFieldLoad(rg.X, owner, ff)
	}
	return false
}

// listIsResult: the list built by this append leaves the function: a (non-error) result depends on it, or it is
// stored into something that is not a local variable.  A list that only serves the function itself (the ids a
// wholesale removal hands to the removal hook one by one) is not a result.
func listIsResult(fn *ssa.Function, app *ssa.Call) bool {
	isApp := func(v ssa.Value) bool { return v == ssa.Value(app) }
	res := false
	allInstrs(fn, func(in ssa.Instruction) {
		switch x := in.(type) {
		case *ssa.Return:
			for _, rv := range x.Results {
				if !isErrorType(rv.Type()) && dependsOn(resolveSpill(rv), isApp) {
					res = true
				}
			}
		case *ssa.Store:
			if _, local := addrRoot(x.Addr).(*ssa.Alloc); !local && dependsOn(x.Val, isApp) {
				res = true
			}
		}
	})
	return res
}

func purgeGate(w *World) gateSpec {
	judge := expiryJudges(w)
	return gateSpec{Name: "expire", FailWhen: "true", Idx: 0, IsGate: func(c *ssa.CallCommon) bool {
		f := c.StaticCallee()
		return f != nil && judge[f] && f.Signature.Results().Len() == 2
	}}
}

func ruleExpGuard(w *World, r *Report) {
	r.Rule("EXP-GUARD", "in every State implementation a fact read out of the fact map reaches a result (a returned value, an entry of a result map, an element appended to a result list) only behind the not-expired edge of a call to the purge helper (expire) on every path", 5)
	a := newLocAnchors(w)
	gate := purgeGate(w)
	n := 0
	for _, fn := range w.Funcs {
		owner, ok := stateOwnerOf(a, fn)
		if !ok || isTestFile(w, fn) || stateFactField[owner] == "" {
			continue
		}
		isLoaded := func(v ssa.Value) bool { return loadedFromFactMap(owner, v) }
		var sinks []ssa.Instruction
		allInstrs(fn, func(in ssa.Instruction) {
			switch x := in.(type) {
			case *ssa.Return:
				for _, rv := range x.Results {
					if isErrorType(rv.Type()) {
						continue
					}
					if b, ok := rv.Type().Underlying().(*types.Basic); ok && b.Info()&types.IsBoolean != 0 {
						continue
					}
					if directlyFrom(resolveSpill(rv), isLoaded, 0) {
						sinks = append(sinks, in)
						return
					}
				}
			case *ssa.MapUpdate:
				if isFieldLoad(x.Map, owner, stateFactField[owner]) || isFieldLoad(x.Map, owner, "cachedRules") {
					return
				}
				if _, ok := x.Map.Type().Underlying().(*types.Map); ok && dependsOn(x.Value, isLoaded) {
					// writes into the fact itself (injecting an id, copying expires into the rule body) are not result emissions
					if dependsOn(x.Map, isLoaded) {
						return
					}
					sinks = append(sinks, in)
				}
			case *ssa.Call:
				c := x.Common()
				if b, ok := c.Value.(*ssa.Builtin); ok && b.Name() == "append" && len(c.Args) == 2 {
					if dependsOn(c.Args[1], isLoaded) && listIsResult(fn, x) {
						sinks = append(sinks, in)
					}
				}
			}
		})
		if len(sinks) == 0 {
			continue
		}
		g := newGateEngine(w, []gateSpec{gate}, nil, nil)
		ef, _ := g.passEdgeFilter(fn)
		reachable := blocksReachable(fn, ef)
		for i, s := range sinks {
			n++
			key := "fn=" + fname(fn) + " emission#" + itoa(i+1)
			if reachable[s.Block()] {
				r.violation("EXP-GUARD", key, w.PosOf(s), "a stored fact can reach the result without having passed the not-expired edge of the purge helper")
			} else {
				r.ok("EXP-GUARD", key, w.PosOf(s), "emitted only behind the not-expired edge")
			}
		}
	}
	r.stat("EXP-GUARD.emission_sites", n)
}

// EXP-TRUTH: once checkExpiration said "expired", the purge helper reports true whatever happens to the removal.
func ruleExpTruth(w *World, r *Report) {
	r.Rule("EXP-TRUTH", "in every purge helper (function built on checkExpiration) every return reachable on the expired edge reports `true` (constant true or the checkExpiration result itself) as its first result, even when the removal fails: callers only log that error and rely on the boolean to skip the item", 1)
	ce := w.Func("core", "checkExpiration")
	for fn := range purgeHelpers(w) {
		if fn.Signature.Results().Len() != 2 {
			continue
		}
		// the expired value
		var expired ssa.Value
		allInstrs(fn, func(in ssa.Instruction) {
			if ex, ok := in.(*ssa.Extract); ok && ex.Index == 0 {
				if c, ok := ex.Tuple.(*ssa.Call); ok && c.Common().StaticCallee() == ce {
					expired = ex
				}
			}
		})
		key := "fn=" + fname(fn)
		if expired == nil {
			// a wrapper that hands back another purge helper's results as they are: decided there
			continue
		}
		// delete the not-expired edges, then every reachable return must return true / expired
		type edge struct {
			b *ssa.BasicBlock
			i int
		}
		var start *ssa.BasicBlock
		for _, b := range fn.Blocks {
			if len(b.Instrs) == 0 {
				continue
			}
			if ifi, ok := b.Instrs[len(b.Instrs)-1].(*ssa.If); ok {
				if ct, ok := decodeIf(ifi); ok && ct.V == expired {
					if ct.TrueWhen == "true" {
						start = b.Succs[0]
					} else if ct.TrueWhen == "false" {
						start = b.Succs[1]
					}
				}
			}
		}
		if start == nil {
			r.violation("EXP-TRUTH", key, w.Pos(fn.Pos()), "the purge helper no longer branches on the checkExpiration result")
			continue
		}
		bad := ""
		seen := map[*ssa.BasicBlock]bool{}
		stack := []*ssa.BasicBlock{start}
		for len(stack) > 0 {
			b := stack[len(stack)-1]
			stack = stack[:len(stack)-1]
			if seen[b] {
				continue
			}
			seen[b] = true
			for _, in := range b.Instrs {
				if ret, ok := in.(*ssa.Return); ok && len(ret.Results) > 0 {
					v := resolveSpill(ret.Results[0])
					if bv, ok := isConstBool(v); ok && bv {
						continue
					}
					if v == expired {
						continue
					}
					bad = w.PosOf(in)
				}
			}
			stack = append(stack, b.Succs...)
		}
		if bad != "" {
			r.violation("EXP-TRUTH", key, bad, "an item that checkExpiration declared expired can be reported as not expired (the caller then returns or dispatches it)")
		} else {
			r.ok("EXP-TRUTH", key, w.Pos(fn.Pos()), "every return on the expired edge reports true")
		}
	}
}

// EXP-REJECT: PrepareFact (which rejects already-expired writes) guards every write of an Add.
func ruleExpReject(w *World, r *Report) {
	r.Rule("EXP-REJECT", "in every State implementation every Storage.Add and every insertion into the fact map lies behind the success edge of PrepareFact (directly, or through a same-type helper all of whose success returns lie behind it): an already-expired or malformed write is refused before anything is stored; inside PrepareFact the ExpiredError return is controlled by notAfter on the canonical expiry", 4)
	a := newLocAnchors(w)
	pf := w.Func("core", "PrepareFact")
	st := w.Named("core", "Storage")
	base := gateSpec{Name: "PrepareFact", FailWhen: "nonnil", Idx: 2, IsGate: func(c *ssa.CallCommon) bool { return c.StaticCallee() == pf }}
	// derived gates: same-type helpers whose success returns are all behind PrepareFact's success edge
	derived := map[*ssa.Function]bool{}
	for _, fn := range w.Funcs {
		if _, ok := stateOwnerOf(a, fn); !ok || isTestFile(w, fn) || errorResultIndex(fn.Signature) < 0 {
			continue
		}
		calls := false
		allInstrs(fn, func(in ssa.Instruction) {
			if c := callOf(in); c != nil && c.StaticCallee() == pf {
				calls = true
			}
		})
		if !calls {
			continue
		}
		g := newGateEngine(w, []gateSpec{base}, nil, nil)
		ef, _ := g.passEdgeFilter(fn)
		if h, _ := reachPSA(fn, nil, isSuccessReturn, nil, ef); h == nil {
			derived[fn] = true
		}
	}
	gates := []gateSpec{base}
	for f := range derived {
		f := f
		gates = append(gates, gateSpec{Name: f.Name(), FailWhen: "nonnil", Idx: errorResultIndex(f.Signature), IsGate: func(c *ssa.CallCommon) bool { return c.StaticCallee() == f }})
	}
	n := 0
	for _, fn := range w.Funcs {
		owner, ok := stateOwnerOf(a, fn)
		if !ok || isTestFile(w, fn) {
			continue
		}
		var sinks []ssa.Instruction
		// `put(id, fact)`: a helper that only sets the entry writes for its caller
		setters, _ := factMapHelpers(w, a, owner)
		if _, isHelper := setters[fn]; isHelper {
			continue
		}
		allInstrs(fn, func(in ssa.Instruction) {
			if c := callOf(in); c != nil {
				if o := calleeObj(c); o != nil && o.Name() == "Add" && isIfaceMethodCall(c, st, "Add") {
					sinks = append(sinks, in)
				}
				if f := c.StaticCallee(); f != nil {
					if _, isHelper := setters[f]; isHelper {
						sinks = append(sinks, in)
					}
				}
			}
			if mu, ok := in.(*ssa.MapUpdate); ok && isFieldLoad(mu.Map, owner, stateFactField[owner]) {
				sinks = append(sinks, in)
			}
		})
		if len(sinks) == 0 {
			continue
		}
		g := newGateEngine(w, gates, nil, nil)
		ef, _ := g.passEdgeFilter(fn)
		reachable := blocksReachable(fn, ef)
		for i, s := range sinks {
			n++
			key := "fn=" + fname(fn) + " write#" + itoa(i+1)
			if fn.Name() == "Load" {
				r.exempt("EXP-REJECT", key, w.PosOf(s), "Load re-inserts records that were prepared when they were first written (linear) / re-prepares them through add (indexed)")
				continue
			}
			if reachable[s.Block()] {
				r.violation("EXP-REJECT", key, w.PosOf(s), "a write to storage or to the fact map is reachable without passing the success edge of PrepareFact")
			} else {
				r.ok("EXP-REJECT", key, w.PosOf(s), "behind the success edge of PrepareFact")
			}
		}
	}
	// inside PrepareFact: the ExpiredError return is behind the true edge of notAfter
	na := w.Func("core", "notAfter")
	g := newGateEngine(w, []gateSpec{{Name: "notAfter", FailWhen: "false", Idx: -1, IsGate: func(c *ssa.CallCommon) bool { return c.StaticCallee() == na }}}, nil, nil)
	_, nt := g.passEdgeFilter(pf)
	se := w.Func("core", "setExpires")
	callsSE := false
	allInstrs(pf, func(in ssa.Instruction) {
		if c := callOf(in); c != nil && c.StaticCallee() == se {
			callsSE = true
		}
	})
	if nt > 0 && callsSE {
		r.ok("EXP-REJECT", "fn="+fname(pf)+" rejects-expired", w.Pos(pf.Pos()), "PrepareFact canonicalises with setExpires and branches on notAfter")
	} else {
		r.violation("EXP-REJECT", "fn="+fname(pf)+" rejects-expired", w.Pos(pf.Pos()), "PrepareFact no longer rejects already-expired facts (setExpires / notAfter test missing)")
	}
	r.stat("EXP-REJECT.write_sites", n)
}

// EXP-CANON: setExpires decides "has an expiry" after it has canonicalised ttl into expires.
func ruleExpCanon(w *World, r *Report) {
	r.Rule("EXP-CANON", "in setExpires the reported has-expiration flag depends (data or control) on a lookup of `expires` that happens after the ttl branch wrote the canonical `expires`; the expiry written for a ttl depends on the current time; getExpiration reads the same key", 3)
	se := w.Func("core", "setExpires")
	var ttlWrites, lookups []ssa.Instruction
	allInstrs(se, func(in ssa.Instruction) {
		if mu, ok := in.(*ssa.MapUpdate); ok {
			if k, ok := constKey(mu.Key); ok && k == "expires" {
				// written from a ttl-derived value?
				if dependsOn(mu.Value, func(v ssa.Value) bool {
					lk, ok := v.(*ssa.Lookup)
					if !ok {
						return false
					}
					k2, ok := constKey(lk.Index)
					return ok && k2 == "ttl"
				}) {
					ttlWrites = append(ttlWrites, in)
				}
			}
		}
		if lk, ok := in.(*ssa.Lookup); ok {
			if k, ok := constKey(lk.Index); ok && k == "expires" {
				lookups = append(lookups, in)
			}
		}
	})
	key := "fn=" + fname(se)
	if len(ttlWrites) == 0 || len(lookups) == 0 {
		r.violation("EXP-CANON", key+" shape", w.Pos(se.Pos()), "setExpires no longer turns ttl into a canonical `expires` entry and reads it back")
		return
	}
	// the lookups that are reachable after every ttl write
	after := map[ssa.Value]bool{}
	for _, l := range lookups {
		okAll := true
		for _, wr := range ttlWrites {
			if !reachable(se, wr, l) {
				okAll = false
			}
		}
		if okAll {
			after[l.(ssa.Value)] = true
		}
	}
	bad := ""
	nret := 0
	allInstrs(se, func(in ssa.Instruction) {
		ret, ok := in.(*ssa.Return)
		if !ok || len(ret.Results) != 3 {
			return
		}
		// only success returns matter
		if !isNilConst(resolveSpill(ret.Results[2])) {
			return
		}
		nret++
		v := resolveSpill(ret.Results[0])
		if b, ok := isConstBool(v); ok && !b && len(ret.Results) == 3 {
			// `return false, ...` on an error path is fine; on a success path the flag must come from the lookup
		}
		if !dependsOnCD(se, v, func(x ssa.Value) bool { return after[x] }) {
			bad = w.PosOf(in)
		}
	})
	if bad != "" {
		r.violation("EXP-CANON", key+" flag-after-canonicalisation", bad, "the has-expiration flag does not derive from a lookup of `expires` made after ttl was canonicalised: a ttl item is reported as not expiring")
	} else if nret > 0 {
		r.ok("EXP-CANON", key+" flag-after-canonicalisation", w.Pos(se.Pos()), "the flag derives from the lookup that follows the ttl canonicalisation")
	}
	// ttl expiry depends on the clock
	clock := false
	for _, wr := range ttlWrites {
		if dependsOn(wr.(*ssa.MapUpdate).Value, func(v ssa.Value) bool {
			c, ok := v.(*ssa.Call)
			if !ok {
				return false
			}
			f := c.Common().StaticCallee()
			return f != nil && (f.Name() == "NowSecs" || (f.Pkg != nil && f.Pkg.Pkg.Path() == "time" && f.Name() == "Now"))
		}) {
			clock = true
		}
	}
	if clock {
		r.ok("EXP-CANON", key+" ttl-absolute", w.PosOf(ttlWrites[0]), "the canonical expiry of a ttl is computed from the clock at write time")
	} else {
		r.violation("EXP-CANON", key+" ttl-absolute", w.PosOf(ttlWrites[0]), "the expiry written for a ttl no longer depends on the current time")
	}
	// reader agrees on the key
	ge := w.Func("core", "getExpiration")
	reads := false
	allInstrs(ge, func(in ssa.Instruction) {
		if lk, ok := in.(*ssa.Lookup); ok {
			if k, ok := constKey(lk.Index); ok && k == "expires" {
				reads = true
			}
		}
	})
	if reads {
		r.ok("EXP-CANON", "fn="+fname(ge)+" key", w.Pos(ge.Pos()), "getExpiration reads `expires`")
	} else {
		r.violation("EXP-CANON", "fn="+fname(ge)+" key", w.Pos(ge.Pos()), "getExpiration no longer reads the `expires` key that setExpires writes")
	}
}

func constKey(v ssa.Value) (string, bool) {
	if s, ok := constString(v); ok {
		return s, true
	}
	if mi, ok := v.(*ssa.MakeInterface); ok {
		return constString(mi.X)
	}
	return "", false
}

// dependsOnCD: data dependence, plus control dependence through phi nodes (the conditions that select a phi edge).
func dependsOnCD(fn *ssa.Function, v ssa.Value, pred func(ssa.Value) bool) bool {
	seen := map[ssa.Value]bool{}
	var rec func(v ssa.Value, d int) bool
	rec = func(v ssa.Value, d int) bool {
		if v == nil || seen[v] || d > 30 {
			return false
		}
		seen[v] = true
		if dependsOn(v, pred) {
			return true
		}
		// find phis in the data slice and follow their controlling conditions
		found := false
		dependsOn(v, func(x ssa.Value) bool {
			ph, ok := x.(*ssa.Phi)
			if !ok || found {
				return false
			}
			b := ph.Block()
			for _, p := range b.Preds {
				// walk the dominator chain of the predecessor up to the phi block's dominator
				for q := p; q != nil && q != b.Idom(); q = q.Idom() {
					if len(q.Instrs) == 0 {
						continue
					}
					if ifi, ok := q.Instrs[len(q.Instrs)-1].(*ssa.If); ok {
						if rec(ifi.Cond, d+1) {
							found = true
						}
					}
				}
				if id := b.Idom(); id != nil && len(id.Instrs) > 0 {
					if ifi, ok := id.Instrs[len(id.Instrs)-1].(*ssa.If); ok {
						if rec(ifi.Cond, d+1) {
							found = true
						}
					}
				}
			}
			return false
		})
		return found
	}
	return rec(v, 0)
}

var _ = token.ADD

func init() {
	register(&propertySpec{
		ID:      "C07",
		Explain: "Static gate / provenance rules for expiry: stored items reach results only behind the not-expired edge of the purge helper, the purge helper reports expiry truthfully even when the clean-up fails, writes are refused before anything is stored when PrepareFact rejects them, the expiry instant is canonicalised at write time and what is persisted carries it. Does not decide the boundary comparison (<= vs <), the arithmetic or timing.",
		Rules:   []ruleFn{ruleExpCachedGuard("C07"), ruleExpGuard, ruleExpTruth, ruleExpReject, ruleExpCanon, rulePersistPrepared("C07"), ruleExpTtlConsumed, ruleClockAfterLock, ruleExpAbsolute, ruleExpTTLRelative, ruleExpCanonFirst, ruleExpParseExact, ruleExpTypesAgree, ruleClockUnits("C07"), rulePurgeRecheck("C07")},
	})
}

// directlyFrom: v is the loaded value itself or a projection / conversion of it (no accumulation through
// local objects, appends or phis).
func directlyFrom(v ssa.Value, pred func(ssa.Value) bool, d int) bool {
	if v == nil || d > 10 {
		return false
	}
	if pred(v) {
		return true
	}
	switch x := v.(type) {
	case *ssa.Extract:
		return directlyFrom(x.Tuple, pred, d+1)
	case *ssa.ChangeType:
		return directlyFrom(x.X, pred, d+1)
	case *ssa.ChangeInterface:
		return directlyFrom(x.X, pred, d+1)
	case *ssa.MakeInterface:
		return directlyFrom(x.X, pred, d+1)
	case *ssa.Field:
		return directlyFrom(x.X, pred, d+1)
	case *ssa.TypeAssert:
		return directlyFrom(x.X, pred, d+1)
	case *ssa.UnOp:
		if x.Op == token.MUL {
			if fa, ok := x.X.(*ssa.FieldAddr); ok {
				return directlyFrom(fa.X, pred, d+1)
			}
			if a, ok := x.X.(*ssa.Alloc); ok {
				// a local copy of the loaded struct (`rf` in `for id, rf := range ...`)
				for _, ref := range *a.Referrers() {
					if st, ok := ref.(*ssa.Store); ok && st.Addr == a && directlyFrom(st.Val, pred, d+1) {
						return true
					}
				}
			}
		}
	case *ssa.Alloc:
		for _, ref := range *x.Referrers() {
			if st, ok := ref.(*ssa.Store); ok && st.Addr == x && directlyFrom(st.Val, pred, d+1) {
				return true
			}
		}
	}
	return false
}

// expiryJudges: the functions whose (bool, error) result says whether a fact has expired.
func expiryJudges(w *World) map[*ssa.Function]bool {
	purge := purgeHelpers(w)
	ce := w.Func("core", "checkExpiration")
	// a judge: checkExpiration itself (a reader under the read lock only skips what has expired and leaves the removal
	// to a purge under the write lock), a helper that judges and removes, or a function every return of which hands
	// back, result for result, what one call of a judge returned (`expired`, which also notes the id)
	judge := map[*ssa.Function]bool{ce: true}
	for f := range purge {
		judge[f] = true
	}
	for changed := true; changed; {
		changed = false
		for _, fn := range w.Funcs {
			if judge[fn] || isTestFile(w, fn) || !w.IsRulio(fn) || fn.Signature.Results().Len() != 2 {
				continue
			}
			rets, all := 0, true
			allInstrs(fn, func(in ssa.Instruction) {
				ret, ok := in.(*ssa.Return)
				if !ok {
					return
				}
				rets++
				var call *ssa.Call
				for i, rv := range ret.Results {
					ex, ok := resolveSpill(rv).(*ssa.Extract)
					if !ok || ex.Index != i {
						all = false
						return
					}
					c, ok := ex.Tuple.(*ssa.Call)
					if !ok || (call != nil && c != call) || c.Common().StaticCallee() == nil || !judge[c.Common().StaticCallee()] {
						all = false
						return
					}
					call = c
				}
			})
			if rets > 0 && all {
				judge[fn] = true
				changed = true
			}
		}
	}
	return judge
}
