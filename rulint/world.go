package main

// world.go: load /repo's current working tree (type-checked syntax + SSA + call graph)
// and resolve anchors through go/types.  Nothing here runs rulio code.

import (
	"fmt"
	"regexp"
	"go/token"
	"go/types"
	"os"
	"sort"
	"strings"

	"golang.org/x/tools/go/callgraph"
	"golang.org/x/tools/go/callgraph/cha"
	"golang.org/x/tools/go/callgraph/vta"
	"golang.org/x/tools/go/packages"
	"golang.org/x/tools/go/ssa"
	"golang.org/x/tools/go/ssa/ssautil"
)

const modPath = "github.com/Comcast/rulio"

// Undecided is raised (panic) when an anchor cannot be resolved or an analysis cannot
// decide; main turns it into exit 2 with an UNDECIDED line (never a pass, never a VIOLATION).
type Undecided struct{ Msg string }

func undecided(format string, args ...interface{}) {
	panic(Undecided{fmt.Sprintf(format, args...)})
}

type World struct {
	Dir   string
	Pkgs  []*packages.Package
	Fset  *token.FileSet
	Prog  *ssa.Program
	ByRel map[string]*packages.Package // "core" -> package
	SSA   map[string]*ssa.Package
	CG    *callgraph.Graph // VTA
	CHA   *callgraph.Graph
	// all source-level functions of rulio packages (including anonymous ones), sorted by name
	Funcs []*ssa.Function
	// extra load roots (fixtures) loaded in the same program, keyed by import path
	Extra map[string]*packages.Package
}

func loadWorld(dir string, withCHA bool, extraPatterns ...string) *World {
	os.Unsetenv("GOWORK")
	cfg := &packages.Config{
		Mode:       packages.LoadAllSyntax,
		Dir:        dir,
		BuildFlags: []string{"-tags=verif", "-mod=mod"},
		Env:        append(os.Environ(), "GOFLAGS=-mod=mod", "GOPROXY=off", "GOSUMDB=off", "GOTOOLCHAIN=local", "GOWORK=off"),
		Tests:      false,
	}
	pats := append([]string{"./..."}, extraPatterns...)
	pkgs, err := packages.Load(cfg, pats...)
	if err != nil {
		undecided("packages.Load failed: %v", err)
	}
	w := &World{Dir: dir, Pkgs: pkgs, ByRel: map[string]*packages.Package{}, SSA: map[string]*ssa.Package{}, Extra: map[string]*packages.Package{}}
	nerr := 0
	for _, p := range pkgs {
		for _, e := range p.Errors {
			fmt.Fprintf(os.Stderr, "load error: %s: %v\n", p.PkgPath, e)
			nerr++
		}
		if p.PkgPath == modPath {
			w.ByRel["."] = p
		} else if strings.HasPrefix(p.PkgPath, modPath+"/") {
			w.ByRel[strings.TrimPrefix(p.PkgPath, modPath+"/")] = p
		} else {
			w.Extra[p.PkgPath] = p
		}
	}
	if nerr > 0 {
		undecided("%d load/type errors in /repo's working tree", nerr)
	}
	if len(w.ByRel) < 11 {
		undecided("expected >= 11 rulio packages, loaded %d", len(w.ByRel))
	}
	if len(pkgs) > 0 {
		w.Fset = pkgs[0].Fset
	}
	prog, spkgs := ssautil.AllPackages(pkgs, ssa.InstantiateGenerics)
	prog.Build()
	w.Prog = prog
	for i, p := range pkgs {
		if spkgs[i] == nil {
			undecided("no SSA for %s", p.PkgPath)
		}
		if strings.HasPrefix(p.PkgPath, modPath) {
			rel := strings.TrimPrefix(strings.TrimPrefix(p.PkgPath, modPath), "/")
			if rel == "" {
				rel = "."
			}
			w.SSA[rel] = spkgs[i]
		}
	}
	all := ssautil.AllFunctions(prog)
	chaG := cha.CallGraph(prog)
	w.CG = vta.CallGraph(all, chaG)
	if withCHA {
		w.CHA = chaG
	}
	for fn := range all {
		if w.IsRulio(fn) && fn.Blocks != nil {
			w.Funcs = append(w.Funcs, fn)
		}
	}
	sort.Slice(w.Funcs, func(i, j int) bool {
		a, b := w.Funcs[i], w.Funcs[j]
		if a.String() != b.String() {
			return a.String() < b.String()
		}
		return a.Pos() < b.Pos()
	})
	return w
}

// IsRulio reports whether fn is defined in a rulio package (including closures).
func (w *World) IsRulio(fn *ssa.Function) bool {
	if fn == nil {
		return false
	}
	for fn.Parent() != nil {
		fn = fn.Parent()
	}
	if fn.Pkg == nil {
		// wrappers / bound methods: use the object
		if o := fn.Object(); o != nil && o.Pkg() != nil {
			return strings.HasPrefix(o.Pkg().Path(), modPath)
		}
		return false
	}
	return strings.HasPrefix(fn.Pkg.Pkg.Path(), modPath)
}

func (w *World) RelPkg(fn *ssa.Function) string {
	for fn.Parent() != nil {
		fn = fn.Parent()
	}
	var path string
	if fn.Pkg != nil {
		path = fn.Pkg.Pkg.Path()
	} else if o := fn.Object(); o != nil && o.Pkg() != nil {
		path = o.Pkg().Path()
	}
	return strings.TrimPrefix(strings.TrimPrefix(path, modPath), "/")
}

// short name of a function: core.(*IndexedState).rem, core.LocationFunctions$3
func fname(fn *ssa.Function) string {
	if fn == nil {
		return "<nil>"
	}
	s := fn.String()
	s = strings.ReplaceAll(s, modPath+"/", "")
	// closures are numbered in source order ($1, $2 ...): adding an unrelated closure renumbers the later ones, so
	// names used in keys, tables and the known-findings file say `$c` for "a closure of"; the position that is
	// reported with every obligation tells which one
	return closureIndex.ReplaceAllString(s, "$$c")
}

var closureIndex = regexp.MustCompile(`\$[0-9]+`)

func (w *World) Pkg(rel string) *packages.Package {
	p := w.ByRel[rel]
	if p == nil {
		undecided("anchor: package %q not found", rel)
	}
	return p
}

// Named returns the named type rel.Name.
func (w *World) Named(rel, name string) *types.Named {
	o := w.Pkg(rel).Types.Scope().Lookup(name)
	if o == nil {
		undecided("anchor: type %s.%s not found", rel, name)
	}
	tn, ok := o.(*types.TypeName)
	if !ok {
		undecided("anchor: %s.%s is not a type", rel, name)
	}
	n, ok := tn.Type().(*types.Named)
	if !ok {
		undecided("anchor: %s.%s is not a named type", rel, name)
	}
	return n
}

func (w *World) TryNamed(rel, name string) *types.Named {
	p := w.ByRel[rel]
	if p == nil {
		return nil
	}
	o := p.Types.Scope().Lookup(name)
	if tn, ok := o.(*types.TypeName); ok {
		if n, ok := tn.Type().(*types.Named); ok {
			return n
		}
	}
	return nil
}

func (w *World) Iface(rel, name string) *types.Interface {
	n := w.Named(rel, name)
	i, ok := n.Underlying().(*types.Interface)
	if !ok {
		undecided("anchor: %s.%s is not an interface", rel, name)
	}
	return i
}

// Func returns the package-level function rel.name.
func (w *World) Func(rel, name string) *ssa.Function {
	f := w.TryFunc(rel, name)
	if f == nil {
		undecided("anchor: func %s.%s not found", rel, name)
	}
	return f
}

func (w *World) TryFunc(rel, name string) *ssa.Function {
	sp := w.SSA[rel]
	if sp == nil {
		return nil
	}
	return sp.Func(name)
}

// Method returns the method (value or pointer receiver) name of named type rel.typ.
func (w *World) Method(rel, typ, name string) *ssa.Function {
	f := w.TryMethod(rel, typ, name)
	if f == nil {
		undecided("anchor: method %s.%s.%s not found", rel, typ, name)
	}
	return f
}

func (w *World) TryMethod(rel, typ, name string) *ssa.Function {
	n := w.TryNamed(rel, typ)
	if n == nil {
		return nil
	}
	for _, t := range []types.Type{types.NewPointer(n), n} {
		ms := w.Prog.MethodSets.MethodSet(t)
		for i := 0; i < ms.Len(); i++ {
			sel := ms.At(i)
			if sel.Obj().Name() == name && sel.Obj().Pkg() == n.Obj().Pkg() {
				// only methods declared on this type (not promoted through embedding)
				if len(sel.Index()) != 1 {
					continue
				}
				if f := w.Prog.MethodValue(sel); f != nil && f.Synthetic == "" {
					return f
				}
			}
		}
	}
	return nil
}

// MethodsOf lists the methods declared on the named type (pointer and value receivers).
func (w *World) MethodsOf(n *types.Named) []*ssa.Function {
	var out []*ssa.Function
	seen := map[*ssa.Function]bool{}
	for _, t := range []types.Type{types.NewPointer(n), n} {
		ms := w.Prog.MethodSets.MethodSet(t)
		for i := 0; i < ms.Len(); i++ {
			sel := ms.At(i)
			if len(sel.Index()) != 1 {
				continue
			}
			if f := w.Prog.MethodValue(sel); f != nil && !seen[f] && f.Blocks != nil && f.Synthetic == "" {
				seen[f] = true
				out = append(out, f)
			}
		}
	}
	sort.Slice(out, func(i, j int) bool { return out[i].Name() < out[j].Name() })
	return out
}

// Implementers returns the named struct types declared in rulio packages whose pointer (or value)
// type implements iface.
func (w *World) Implementers(iface *types.Interface) []*types.Named {
	var out []*types.Named
	var rels []string
	for rel := range w.ByRel {
		rels = append(rels, rel)
	}
	sort.Strings(rels)
	for _, rel := range rels {
		sc := w.ByRel[rel].Types.Scope()
		for _, nm := range sc.Names() {
			tn, ok := sc.Lookup(nm).(*types.TypeName)
			if !ok || tn.IsAlias() {
				continue
			}
			n, ok := tn.Type().(*types.Named)
			if !ok {
				continue
			}
			if _, isI := n.Underlying().(*types.Interface); isI {
				continue
			}
			if types.Implements(types.NewPointer(n), iface) || types.Implements(n, iface) {
				out = append(out, n)
			}
		}
	}
	return out
}

func (w *World) Pos(p token.Pos) string {
	if !p.IsValid() {
		return "?"
	}
	pos := w.Fset.Position(p)
	f := pos.Filename
	f = strings.TrimPrefix(f, w.Dir+"/")
	return fmt.Sprintf("%s:%d", f, pos.Line)
}

// PosOf gives the best position for an instruction (falls back to enclosing function).
func (w *World) PosOf(in ssa.Instruction) string {
	if in == nil {
		return "?"
	}
	if p := in.Pos(); p.IsValid() {
		return w.Pos(p)
	}
	// look at operands
	for _, op := range in.Operands(nil) {
		if op != nil && *op != nil {
			if p := (*op).Pos(); p.IsValid() {
				return w.Pos(p)
			}
		}
	}
	if in.Parent() != nil {
		return w.Pos(in.Parent().Pos())
	}
	return "?"
}

// Callers returns the rulio call sites (VTA graph) that may call fn.
func (w *World) Callers(fn *ssa.Function) []*callgraph.Edge {
	n := w.CG.Nodes[fn]
	if n == nil {
		return nil
	}
	var out []*callgraph.Edge
	for _, e := range n.In {
		if e.Caller == nil || e.Caller.Func == nil || e.Site == nil {
			continue
		}
		if !w.IsRulio(e.Caller.Func) {
			continue
		}
		out = append(out, e)
	}
	sort.Slice(out, func(i, j int) bool {
		a, b := out[i], out[j]
		if a.Caller.Func.String() != b.Caller.Func.String() {
			return a.Caller.Func.String() < b.Caller.Func.String()
		}
		return a.Site.Pos() < b.Site.Pos()
	})
	return out
}

// Callees returns the possible callees (VTA) of a call site inside fn.
func (w *World) Callees(site ssa.CallInstruction) []*ssa.Function {
	fn := site.Parent()
	n := w.CG.Nodes[fn]
	if n == nil {
		return nil
	}
	var out []*ssa.Function
	for _, e := range n.Out {
		if e.Site == site && e.Callee != nil && e.Callee.Func != nil {
			out = append(out, e.Callee.Func)
		}
	}
	sort.Slice(out, func(i, j int) bool { return out[i].String() < out[j].String() })
	return out
}
