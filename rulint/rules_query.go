package main

// rules_query.go: C03 — the shape of the five query combinators (and / or / not / pattern / code / empty).
//
// The property is a denotational semantics over all query programs; what bindings a pattern produces is
// value-level and stays undecided.  What *is* visible in the shape of the code, and is a necessary condition
// of the stated semantics, is how each combinator wires its sub-queries together:
//
//	and      the input of conjunct i+1 is the output of conjunct i, the result is the last output
//	or       every disjunct gets the single incoming binding (never an earlier disjunct's output), every
//	         disjunct's output is collected, and the loop is left early only under ShortCircuit and a
//	         non-empty output
//	not      a candidate is kept exactly on the edge "the negated query produced nothing"
//	pattern  bind the pattern with the incoming binding, search with the bound pattern, extend the incoming
//	         binding with every found binding
//	code     the script sees the incoming binding; the binding is kept exactly on true / non-null, and a
//	         returned object is merged into a copy of the incoming binding under "?"-prefixed keys
//	empty    identity
//	all      every incoming binding is processed (no early exit from the loops), results are returned
//
// The rules use data dependence (through local slots and calls) and edge-deleted reachability, not the
// position or spelling of statements.  Where an implementation is re-written in a shape the rule does not
// recognise, the rule says "not decided" instead of raising an alarm.

import (
	"fmt"
	"go/constant"
	"go/token"
	"go/types"
	"sort"

	"golang.org/x/tools/go/ssa"
)

type qsem struct {
	w     *World
	r     *Report
	query *types.Named // core.Query
	qrT   *types.Named // core.QueryResult
	bsT   *types.Named // core.Bindings
}

func (q *qsem) execFn(typ string) *ssa.Function { return q.w.Method("core", typ, "Exec") }

func (q *qsem) isExecCall(v ssa.Value) bool {
	c, ok := v.(*ssa.Call)
	return ok && isIfaceMethodCall(c.Common(), q.query, "Exec")
}

func (q *qsem) execSites(fn *ssa.Function) []*ssa.Call {
	var out []*ssa.Call
	allInstrs(fn, func(in ssa.Instruction) {
		if c, ok := in.(*ssa.Call); ok && q.isExecCall(c) {
			out = append(out, c)
		}
	})
	return out
}

// the QueryResult parameter
func (q *qsem) qrParam(fn *ssa.Function) *ssa.Parameter {
	for _, p := range fn.Params {
		if types.Identical(p.Type(), q.qrT) {
			return p
		}
	}
	undecided("C03: %s has no QueryResult parameter", fname(fn))
	return nil
}

// the QueryResult argument of an Exec call
func (q *qsem) qrArg(c *ssa.Call) ssa.Value {
	for _, a := range c.Call.Args {
		if types.Identical(a.Type(), q.qrT) {
			return a
		}
	}
	return nil
}

func (q *qsem) isBindingsSlice(t types.Type) bool {
	s, ok := t.Underlying().(*types.Slice)
	return ok && types.Identical(s.Elem(), q.bsT)
}

// isElem: v is one element of the incoming list of bindings (qr.Bss[i])
func (q *qsem) isElem(qr *ssa.Parameter) func(ssa.Value) bool {
	isQr := func(v ssa.Value) bool { return v == ssa.Value(qr) }
	return func(v ssa.Value) bool {
		u, ok := v.(*ssa.UnOp)
		if !ok || u.Op != token.MUL {
			return false
		}
		ia, ok := u.X.(*ssa.IndexAddr)
		return ok && q.isBindingsSlice(ia.X.Type()) && dependsOn(ia.X, isQr)
	}
}

// lenEdge: for a block ending in `if len(x) <op> const`, the successor index taken when len(x) > 0, and x.
func lenEdge(b *ssa.BasicBlock) (x ssa.Value, nonEmptySucc int, ok bool) {
	if len(b.Instrs) == 0 {
		return nil, 0, false
	}
	ifi, isIf := b.Instrs[len(b.Instrs)-1].(*ssa.If)
	if !isIf {
		return nil, 0, false
	}
	cond := ifi.Cond
	neg := false
	for {
		if u, isU := cond.(*ssa.UnOp); isU && u.Op == token.NOT {
			neg = !neg
			cond = u.X
			continue
		}
		break
	}
	bo, isB := cond.(*ssa.BinOp)
	if !isB {
		return nil, 0, false
	}
	lenOf := func(v ssa.Value) ssa.Value {
		c, isC := v.(*ssa.Call)
		if !isC {
			return nil
		}
		if bi, isBi := c.Common().Value.(*ssa.Builtin); isBi && bi.Name() == "len" && len(c.Call.Args) == 1 {
			return c.Call.Args[0]
		}
		return nil
	}
	constInt := func(v ssa.Value) (int64, bool) {
		c, isC := v.(*ssa.Const)
		if !isC || c.Value == nil || c.Value.Kind() != constant.Int {
			return 0, false
		}
		return c.Int64(), true
	}
	var k int64
	op := bo.Op
	if l := lenOf(bo.X); l != nil {
		c, okc := constInt(bo.Y)
		if !okc {
			return nil, 0, false
		}
		x, k = l, c
	} else if l := lenOf(bo.Y); l != nil {
		c, okc := constInt(bo.X)
		if !okc {
			return nil, 0, false
		}
		x, k = l, c
		// flip: k op len  ==  len op' k
		switch op {
		case token.LSS:
			op = token.GTR
		case token.GTR:
			op = token.LSS
		case token.LEQ:
			op = token.GEQ
		case token.GEQ:
			op = token.LEQ
		}
	} else {
		return nil, 0, false
	}
	eval := func(n int64) bool {
		var t bool
		switch op {
		case token.EQL:
			t = n == k
		case token.NEQ:
			t = n != k
		case token.LSS:
			t = n < k
		case token.LEQ:
			t = n <= k
		case token.GTR:
			t = n > k
		case token.GEQ:
			t = n >= k
		default:
			return false
		}
		if neg {
			t = !t
		}
		return t
	}
	t0, t1, t2 := eval(0), eval(1), eval(2)
	switch {
	case !t0 && t1 && t2:
		return x, 0, true // true edge = non-empty
	case t0 && !t1 && !t2:
		return x, 1, true // false edge = non-empty
	}
	return nil, 0, false
}

type bedge struct {
	b *ssa.BasicBlock
	i int
}

// exitTraversable: can the loop be left through e when the edges in del are deleted?
func exitTraversable(l *natLoop, e loopExit, del map[bedge]bool) bool {
	if e.Succ >= 0 && del[bedge{e.From, e.Succ}] {
		return false
	}
	seen := map[*ssa.BasicBlock]bool{l.Header: true}
	stack := []*ssa.BasicBlock{l.Header}
	for len(stack) > 0 {
		b := stack[len(stack)-1]
		stack = stack[:len(stack)-1]
		if b == e.From {
			return true
		}
		for si, s := range b.Succs {
			if del[bedge{b, si}] || !l.Body[s] || seen[s] {
				continue
			}
			seen[s] = true
			stack = append(stack, s)
		}
	}
	return false
}

func edgeFilterOf(del map[bedge]bool) edgeFilter {
	return func(from *ssa.BasicBlock, si int) bool { return !del[bedge{from, si}] }
}

// bindingsAppends: append calls that build a []Bindings
func (q *qsem) bindingsAppends(fn *ssa.Function) []*ssa.Call {
	var out []*ssa.Call
	allInstrs(fn, func(in ssa.Instruction) {
		if c, ok := isBuiltinCall(in, "append"); ok && q.isBindingsSlice(c.Type()) {
			out = append(out, c)
		}
	})
	return out
}

// everyLoopExhaustive reports early exits of fn's loops other than those in allowed.
func (q *qsem) everyLoopExhaustive(rule string, fn *ssa.Function, allowed map[bedge]bool) {
	key := "fn=" + fname(fn)
	loops := naturalLoops(fn)
	bad := false
	for _, l := range loops {
		for _, ex := range loopEarlyExits(l) {
			if allowed[bedge{ex.From, ex.Succ}] {
				continue
			}
			last := ex.From.Instrs[len(ex.From.Instrs)-1]
			q.r.violation(rule, key, q.w.PosOf(last), "a loop of this combinator can be left (break / success return) before every incoming binding, sub-query or found binding was processed: the remaining ones are silently dropped from the result")
			bad = true
		}
	}
	if !bad {
		q.r.ok(rule, key, q.w.Pos(fn.Pos()), fmt.Sprintf("%d loops, left only by exhaustion, by an error, or by the guarded short-circuit", len(loops)))
	}
}

// resultDependsOn: every success return's first result depends on pred; returns the first return that does not.
func (q *qsem) successReturns(fn *ssa.Function) []*ssa.Return {
	var out []*ssa.Return
	allInstrs(fn, func(in ssa.Instruction) {
		if ret, ok := in.(*ssa.Return); ok && isSuccessReturnPS(in) && len(ret.Results) > 0 {
			out = append(out, ret)
		}
	})
	return out
}

func ruleQuerySemantics(w *World, r *Report) {
	q := &qsem{w: w, r: r, query: w.Named("core", "Query"), qrT: w.Named("core", "QueryResult"), bsT: w.Named("core", "Bindings")}
	r.Rule("QSEM-AND", "AndQuery.Exec composes left to right: inside the loop over the conjuncts the QueryResult handed to a conjunct data-depends on the result of a conjunct's Exec (loop-carried), it also depends on the incoming QueryResult (first conjunct, empty `and`), and every success return depends on an Exec result or on the input", 1)
	r.Rule("QSEM-OR", "OrQuery.Exec: the QueryResult handed to a disjunct is built from one incoming binding and does not depend on any Exec result (disjuncts are alternatives, not a pipeline); on every path from a disjunct's successful Exec to the next Exec or to a success return its Bss are appended to the result; the loop over the disjuncts is left early only on the edges `ShortCircuit is set` and `this disjunct produced bindings`", 3)
	r.Rule("QSEM-NOT", "NotQuery.Exec: the negated query is tried on one incoming binding at a time; that binding (itself, not the sub-query's output) is appended to the result exactly on the edge `the sub-query's Bss are empty`: unreachable with that edge deleted, unavoidable with the opposite edge deleted", 2)
	r.Rule("QSEM-PATTERN", "PatternQuery.Exec: the pattern searched for is the result of Bindings.Bind applied to the incoming binding and the query's Pattern; every binding found is combined with the incoming binding by ExtendBindings and appended (no path through the innermost result loop avoids the append)", 3)
	r.Rule("QSEM-CODE", "CodeQuery.Exec: the script runs with the incoming binding as its variables; the incoming binding is appended only on the edges `the value is the bool true` / `the value is not nil`, and with the false / nil edges deleted every path to the next binding passes an append; a returned object goes into a map allocated for this binding that receives every entry of the incoming binding and every entry of the object under a \"?\"-prefixed key", 3)
	r.Rule("QSEM-EMPTY", "EmptyQuery.Exec is the identity: the Bss of the returned result are the Bss of the input", 1)
	r.Rule("QSEM-EVERY", "no loop of a combinator's Exec is left early (break or success return) except OrQuery's guarded short-circuit: every incoming binding, every sub-query and every found binding is processed", 5)
	r.Rule("QSEM-RESULT", "every success return of a combinator's Exec returns what was accumulated: its result depends on the appends (or, for `and`/`empty`, on the sub-results / the input)", 5)
	r.Rule("QSEM-PARSE", "every implementation of core.Query is produced somewhere below core.ParseQuery (a converted value of that type reaches the Query interface in ParseQuery or a function it calls): a combinator that cannot be parsed does not exist for rules", 5)

	r.Rule("QSEM-BIND", "Bindings.Bind substitutes structurally: every value it puts into the map or the array it builds (map update, appended element, indexed store) is, on every path, the result of Bind applied to the corresponding element — an element copied as it is keeps its variables, so a variable that is already bound deeper in the pattern is searched as a free variable and re-bound", 2)
	q.ruleBind()
	q.ruleAnd()
	q.ruleOr()
	q.ruleNot()
	q.rulePattern()
	q.ruleCode()
	q.ruleEmpty()
	q.ruleParse()
}

// ---- bind -----------------------------------------------------------------------------------------

func (q *qsem) ruleBind() {
	fn := q.w.Method("core", "Bindings", "Bind")
	var isBound func(v ssa.Value, d int) bool
	isBound = func(v ssa.Value, d int) bool {
		if d > 8 {
			return false
		}
		switch x := v.(type) {
		case *ssa.Call:
			return x.Common().StaticCallee() == fn
		case *ssa.Phi:
			for _, e := range x.Edges {
				if !isBound(e, d+1) {
					return false
				}
			}
			return len(x.Edges) > 0
		case *ssa.MakeInterface:
			return isBound(x.X, d+1)
		case *ssa.ChangeInterface:
			return isBound(x.X, d+1)
		}
		return false
	}
	n := 0
	check := func(in ssa.Instruction, what string, v ssa.Value) {
		n++
		key := "fn=" + fname(fn) + " " + what
		if isBound(v, 0) {
			q.r.ok("QSEM-BIND", key, q.w.PosOf(in), "what is stored is the recursively bound element")
		} else {
			q.r.violation("QSEM-BIND", key, q.w.PosOf(in), "an element can be put into the bound pattern without having been bound itself (on some path it is not the result of the recursive Bind call): variables below it stay free")
		}
	}
	allInstrs(fn, func(in ssa.Instruction) {
		switch x := in.(type) {
		case *ssa.MapUpdate:
			if _, ok := x.Map.(*ssa.MakeMap); ok {
				check(in, "map-entry", x.Value)
			}
		case *ssa.Call:
			if c, ok := isBuiltinCall(in, "append"); ok {
				for _, e := range appendedElems(c) {
					check(in, "array-element", e)
				}
			}
		case *ssa.Store:
			if ia, ok := x.Addr.(*ssa.IndexAddr); ok {
				if _, isMk := ia.X.(*ssa.MakeSlice); isMk {
					check(in, "array-element", x.Val)
				}
			}
		}
	})
	if n == 0 {
		q.r.exempt("QSEM-BIND", "fn="+fname(fn), q.w.Pos(fn.Pos()), "Bind builds no map or array in this function: shape not recognised, not decided")
	}
}

// ---- and ------------------------------------------------------------------------------------------

func (q *qsem) ruleAnd() {
	fn := q.execFn("AndQuery")
	qr := q.qrParam(fn)
	key := "fn=" + fname(fn)
	sites := q.execSites(fn)
	loops := naturalLoops(fn)
	isQr := func(v ssa.Value) bool { return v == ssa.Value(qr) }
	if len(sites) == 0 {
		q.r.exempt("QSEM-AND", key, q.w.Pos(fn.Pos()), "no direct Exec call on a sub-query in this function (delegated): shape not recognised, not decided")
	}
	inLoop := 0
	for _, s := range sites {
		arg := q.qrArg(s)
		if arg == nil {
			continue
		}
		if innermostLoop(loops, s.Block()) == nil {
			continue
		}
		inLoop++
		switch {
		case !dependsOnFS(arg, q.isExecCall):
			q.r.violation("QSEM-AND", key, q.w.PosOf(s), "inside the loop over the conjuncts a conjunct is handed a QueryResult that does not depend on the previous conjunct's result: every conjunct sees the original bindings, the `and` is no longer a composition")
		case !dependsOn(arg, isQr):
			q.r.violation("QSEM-AND", key, q.w.PosOf(s), "the QueryResult handed to the conjuncts does not depend on the incoming one: the first conjunct does not start from the incoming bindings")
		default:
			q.r.ok("QSEM-AND", key, q.w.PosOf(s), "conjunct input = previous conjunct's output (loop-carried), seeded with the input")
		}
	}
	if len(sites) > 0 && inLoop == 0 {
		q.r.exempt("QSEM-AND", key, q.w.Pos(fn.Pos()), "the conjuncts are not evaluated in a loop (recursive or unrolled implementation): shape not recognised, not decided")
	}
	// results
	anyExec := false
	bad := false
	for _, ret := range q.successReturns(fn) {
		v := resolveSpill(ret.Results[0])
		de, dq := dependsOn(v, q.isExecCall), dependsOn(v, isQr)
		if de {
			anyExec = true
		}
		if !de && !dq {
			q.r.violation("QSEM-RESULT", key, q.w.PosOf(ret), "a success return of AndQuery.Exec returns something that is neither a conjunct's result nor the input")
			bad = true
		}
	}
	if len(sites) > 0 && !anyExec {
		q.r.violation("QSEM-RESULT", key, q.w.Pos(fn.Pos()), "no success return of AndQuery.Exec depends on a conjunct's result: the conjunction returns its input")
		bad = true
	}
	if !bad {
		q.r.ok("QSEM-RESULT", key, q.w.Pos(fn.Pos()), "returns the last conjunct's result (or the input)")
	}
	q.everyLoopExhaustive("QSEM-EVERY", fn, nil)
}

// ---- or -------------------------------------------------------------------------------------------

func (q *qsem) ruleOr() {
	fn := q.execFn("OrQuery")
	qr := q.qrParam(fn)
	key := "fn=" + fname(fn)
	sites := q.execSites(fn)
	loops := naturalLoops(fn)
	isElem := q.isElem(qr)
	apps := q.bindingsAppends(fn)
	allowed := map[bedge]bool{}
	if len(sites) == 0 {
		q.r.exempt("QSEM-OR", key, q.w.Pos(fn.Pos()), "no direct Exec call on a sub-query in this function: shape not recognised, not decided")
		return
	}
	for _, s := range sites {
		arg := q.qrArg(s)
		k := key + " input"
		switch {
		case arg == nil:
		case dependsOnFS(arg, q.isExecCall):
			q.r.violation("QSEM-OR", k, q.w.PosOf(s), "a disjunct is handed a QueryResult that depends on an earlier disjunct's result: the disjuncts are chained instead of being alternatives on the same incoming binding")
		case !dependsOn(arg, isElem):
			q.r.violation("QSEM-OR", k, q.w.PosOf(s), "the QueryResult handed to a disjunct is not built from one incoming binding")
		default:
			q.r.ok("QSEM-OR", k, q.w.PosOf(s), "each disjunct gets the single incoming binding")
		}
		// collect
		isMine := func(v ssa.Value) bool { return v == ssa.Value(s) }
		var collect []*ssa.Call
		for _, a := range apps {
			if len(a.Call.Args) == 2 && dependsOn(a.Call.Args[1], isMine) {
				collect = append(collect, a)
			}
		}
		k = key + " collect"
		if len(collect) == 0 {
			q.r.violation("QSEM-OR", k, q.w.PosOf(s), "the bindings a disjunct produces are never appended to the result")
		} else {
			isCollect := func(x ssa.Instruction) bool {
				for _, a := range collect {
					if x == ssa.Instruction(a) {
						return true
					}
				}
				return false
			}
			target := func(x ssa.Instruction) bool { return x == ssa.Instruction(s) || isSuccessReturnPS(x) }
			if h, path := reach(fn, s, target, isCollect, nil); h != nil {
				q.r.violation("QSEM-OR", k, q.w.PosOf(h), "a disjunct's result can be skipped: there is a path from its successful Exec to the next disjunct (or to the return) that does not append its bindings", blockPathString(q.w, path)...)
			} else {
				q.r.ok("QSEM-OR", k, q.w.PosOf(collect[0]), "every disjunct's bindings are appended")
			}
		}
		// short circuit
		l := innermostLoop(loops, s.Block())
		k = key + " short-circuit"
		if l == nil {
			q.r.exempt("QSEM-OR", k, q.w.PosOf(s), "the disjuncts are not evaluated in a loop: shape not recognised, not decided")
			continue
		}
		scDel, neDel := map[bedge]bool{}, map[bedge]bool{}
		nSC, nNE := 0, 0
		for b := range l.Body {
			if len(b.Instrs) == 0 {
				continue
			}
			if ifi, ok := b.Instrs[len(b.Instrs)-1].(*ssa.If); ok {
				if ct, ok := decodeIf(ifi); ok {
					if n, f, _, ok := loadedField(resolveSpill(ct.V)); ok && typeKey(n) == "core.OrQuery" && f == "ShortCircuit" {
						nSC++
						if ct.TrueWhen == "true" {
							scDel[bedge{b, 0}] = true
						} else if ct.TrueWhen == "false" {
							scDel[bedge{b, 1}] = true
						}
					}
				}
			}
			if x, ne, ok := lenEdge(b); ok && dependsOn(x, isMine) {
				nNE++
				neDel[bedge{b, ne}] = true
			}
		}
		exits := loopEarlyExits(l)
		if len(exits) == 0 {
			if nSC == 0 {
				q.r.violation("QSEM-OR", k, q.w.PosOf(s), "OrQuery.Exec never looks at ShortCircuit and never leaves the loop over the disjuncts early: with shortCircuit set, the disjuncts after the first productive one still contribute")
			} else {
				q.r.exempt("QSEM-OR", k, q.w.PosOf(s), "ShortCircuit is tested but the loop has no early exit (implemented some other way): shape not recognised, not decided")
			}
			continue
		}
		bad := false
		for _, ex := range exits {
			last := ex.From.Instrs[len(ex.From.Instrs)-1]
			if exitTraversable(l, ex, scDel) {
				q.r.violation("QSEM-OR", k, q.w.PosOf(last), "the loop over the disjuncts can be left early on a path on which ShortCircuit is not set: without shortCircuit the remaining disjuncts are dropped")
				bad = true
			} else if exitTraversable(l, ex, neDel) {
				q.r.violation("QSEM-OR", k, q.w.PosOf(last), "the loop over the disjuncts can be left early although the disjunct just evaluated produced no bindings: the short-circuit stops at an unproductive disjunct")
				bad = true
			} else {
				allowed[bedge{ex.From, ex.Succ}] = true
			}
		}
		if !bad {
			q.r.ok("QSEM-OR", k, q.w.PosOf(s), fmt.Sprintf("early exit only under ShortCircuit (%d tests) and a non-empty result (%d tests)", nSC, nNE))
		}
	}
	q.resultFromAppends(fn, key, apps)
	q.everyLoopExhaustive("QSEM-EVERY", fn, allowed)
}

// resultFromAppends: every success return depends on one of the appends.
func (q *qsem) resultFromAppends(fn *ssa.Function, key string, apps []*ssa.Call) {
	isApp := func(v ssa.Value) bool {
		for _, a := range apps {
			if v == ssa.Value(a) {
				return true
			}
		}
		return false
	}
	bad := false
	rets := q.successReturns(fn)
	for _, ret := range rets {
		if !dependsOn(resolveSpill(ret.Results[0]), isApp) {
			q.r.violation("QSEM-RESULT", key, q.w.PosOf(ret), "a success return does not return the accumulated bindings")
			bad = true
		}
	}
	if len(rets) == 0 {
		q.r.violation("QSEM-RESULT", key, q.w.Pos(fn.Pos()), "no success return")
		bad = true
	}
	if !bad {
		q.r.ok("QSEM-RESULT", key, q.w.Pos(fn.Pos()), "returns the accumulated bindings")
	}
}

// ---- not ------------------------------------------------------------------------------------------

func (q *qsem) ruleNot() {
	fn := q.execFn("NotQuery")
	qr := q.qrParam(fn)
	key := "fn=" + fname(fn)
	sites := q.execSites(fn)
	isElem := q.isElem(qr)
	apps := q.bindingsAppends(fn)
	if len(sites) == 0 {
		q.r.exempt("QSEM-NOT", key, q.w.Pos(fn.Pos()), "no direct Exec call on the negated query: shape not recognised, not decided")
		return
	}
	for _, s := range sites {
		isMine := func(v ssa.Value) bool { return v == ssa.Value(s) }
		arg := q.qrArg(s)
		k := key + " input"
		if arg != nil && dependsOn(arg, isElem) && !dependsOnFS(arg, q.isExecCall) {
			q.r.ok("QSEM-NOT", k, q.w.PosOf(s), "the negated query is tried on one incoming binding")
		} else {
			q.r.violation("QSEM-NOT", k, q.w.PosOf(s), "the negated query is not tried on a single incoming binding")
		}
		// keep appends
		var keep []*ssa.Call
		for _, a := range apps {
			for _, e := range appendedElems(a) {
				if dependsOn(e, isElem) && !dependsOn(e, isMine) {
					keep = append(keep, a)
				}
			}
		}
		k = key + " keep"
		if len(keep) == 0 {
			q.r.violation("QSEM-NOT", k, q.w.PosOf(s), "no incoming binding is ever appended to the result (or what is appended is the negated query's output)")
			continue
		}
		isKeep := func(x ssa.Instruction) bool {
			for _, a := range keep {
				if x == ssa.Instruction(a) {
					return true
				}
			}
			return false
		}
		emptyDel, neDel := map[bedge]bool{}, map[bedge]bool{}
		n := 0
		for _, b := range fn.Blocks {
			if x, ne, ok := lenEdge(b); ok && dependsOn(x, isMine) {
				n++
				neDel[bedge{b, ne}] = true
				emptyDel[bedge{b, 1 - ne}] = true
			}
		}
		if n == 0 {
			q.r.violation("QSEM-NOT", k, q.w.PosOf(s), "the number of bindings the negated query produced is never tested")
			continue
		}
		if h, _ := reach(fn, s, isKeep, nil, edgeFilterOf(emptyDel)); h != nil {
			q.r.violation("QSEM-NOT", k, q.w.PosOf(h), "an incoming binding can be kept although the negated query produced bindings for it")
			continue
		}
		target := func(x ssa.Instruction) bool { return x == ssa.Instruction(s) || isSuccessReturnPS(x) }
		if h, path := reach(fn, s, target, isKeep, edgeFilterOf(neDel)); h != nil {
			q.r.violation("QSEM-NOT", k, q.w.PosOf(h), "an incoming binding for which the negated query produced nothing can be dropped", blockPathString(q.w, path)...)
			continue
		}
		q.r.ok("QSEM-NOT", k, q.w.PosOf(keep[0]), "kept exactly on the empty edge")
	}
	q.resultFromAppends(fn, key, apps)
	q.everyLoopExhaustive("QSEM-EVERY", fn, nil)
}

// ---- pattern --------------------------------------------------------------------------------------

func (q *qsem) rulePattern() {
	fn := q.execFn("PatternQuery")
	qr := q.qrParam(fn)
	key := "fn=" + fname(fn)
	isElem := q.isElem(qr)
	bind := q.w.Method("core", "Bindings", "Bind")
	extend := q.w.Func("core", "ExtendBindings")
	var binds, searches, extends []*ssa.Call
	allInstrs(fn, func(in ssa.Instruction) {
		c, ok := in.(*ssa.Call)
		if !ok {
			return
		}
		f := c.Common().StaticCallee()
		switch {
		case f == bind:
			binds = append(binds, c)
		case f == extend:
			extends = append(extends, c)
		case f != nil && isMethodOf(calleeObj(c.Common()), modPath+"/core", "Location", f.Name()):
			res := f.Signature.Results()
			if res.Len() > 0 {
				if pt, ok := res.At(0).Type().(*types.Pointer); ok && isNamed(pt.Elem(), modPath+"/core", "SearchResults") {
					searches = append(searches, c)
				}
			}
		}
	})
	isBind := func(v ssa.Value) bool {
		for _, b := range binds {
			if v == ssa.Value(b) {
				return true
			}
		}
		return false
	}
	isSearch := func(v ssa.Value) bool {
		for _, s := range searches {
			if v == ssa.Value(s) {
				return true
			}
		}
		return false
	}
	isPatternField := func(v ssa.Value) bool {
		n, f, _, ok := loadedField(v)
		return ok && typeKey(n) == "core.PatternQuery" && f == "Pattern"
	}
	// bind
	k := key + " bind"
	if len(binds) == 0 || len(searches) == 0 {
		q.r.exempt("QSEM-PATTERN", k, q.w.Pos(fn.Pos()), "no direct Bindings.Bind / Location search call in this function: shape not recognised, not decided")
	} else {
		okBind := false
		for _, b := range binds {
			if len(b.Call.Args) >= 3 && dependsOn(b.Call.Args[0], isElem) && dependsOn(b.Call.Args[2], isPatternField) {
				okBind = true
			}
		}
		if !okBind {
			q.r.violation("QSEM-PATTERN", k, q.w.PosOf(binds[0]), "Bindings.Bind is not applied to the incoming binding and the query's Pattern")
		} else {
			bad := false
			for _, s := range searches {
				dep := false
				for _, a := range s.Call.Args[1:] {
					if _, isMap := a.Type().Underlying().(*types.Map); isMap && dependsOn(a, isBind) {
						dep = true
					}
				}
				if !dep {
					q.r.violation("QSEM-PATTERN", k, q.w.PosOf(s), "the pattern searched for is not the pattern bound with the incoming binding (variables already bound are searched as free variables)")
					bad = true
				}
			}
			if !bad {
				q.r.ok("QSEM-PATTERN", k, q.w.PosOf(searches[0]), "searches for the pattern bound with the incoming binding")
			}
		}
	}
	// extend + append
	apps := q.bindingsAppends(fn)
	k = key + " extend"
	var good []*ssa.Call
	for _, a := range apps {
		for _, e := range appendedElems(a) {
			for _, x := range extends {
				x := x
				if dependsOn(e, func(v ssa.Value) bool { return v == ssa.Value(x) }) {
					if len(x.Call.Args) >= 3 && dependsOn(x.Call.Args[1], isElem) && dependsOn(x.Call.Args[2], isSearch) {
						good = append(good, a)
					}
				}
			}
		}
	}
	if len(extends) == 0 {
		q.r.exempt("QSEM-PATTERN", k, q.w.Pos(fn.Pos()), "no direct ExtendBindings call: shape not recognised, not decided")
	} else if len(good) == 0 {
		q.r.violation("QSEM-PATTERN", k, q.w.PosOf(extends[0]), "what is appended to the result is not ExtendBindings(incoming binding, found binding)")
	} else {
		q.r.ok("QSEM-PATTERN", k, q.w.PosOf(good[0]), "appends ExtendBindings(incoming, found)")
		// unconditional in the innermost loop
		loops := naturalLoops(fn)
		k = key + " every-found"
		a := good[0]
		l := innermostLoop(loops, a.Block())
		if l == nil {
			q.r.exempt("QSEM-PATTERN", k, q.w.PosOf(a), "the append is not inside a loop: shape not recognised, not decided")
		} else {
			// from the first instruction of every body successor of the header, can the header be reached again without the append?
			skipped := false
			for _, s := range l.Header.Succs {
				if !l.Body[s] || len(s.Instrs) == 0 {
					continue
				}
				first := s.Instrs[0]
				if first == ssa.Instruction(a) {
					continue
				}
				hdr := l.Header.Instrs[0]
				if h, _ := reach(fn, first, func(x ssa.Instruction) bool { return x == hdr }, func(x ssa.Instruction) bool { return x == ssa.Instruction(a) }, func(from *ssa.BasicBlock, si int) bool { return l.Body[from.Succs[si]] }); h != nil {
					skipped = true
				}
			}
			if skipped {
				q.r.violation("QSEM-PATTERN", k, q.w.PosOf(a), "an iteration over the found bindings can end without appending the extended binding")
			} else {
				q.r.ok("QSEM-PATTERN", k, q.w.PosOf(a), "every found binding is appended")
			}
		}
	}
	q.resultFromAppends(fn, key, apps)
	q.everyLoopExhaustive("QSEM-EVERY", fn, nil)
}

// ---- code -----------------------------------------------------------------------------------------

func (q *qsem) ruleCode() {
	fn := q.execFn("CodeQuery")
	qr := q.qrParam(fn)
	key := "fn=" + fname(fn)
	isElem := q.isElem(qr)
	runjs := q.w.Func("core", "RunJavascript")
	var js []*ssa.Call
	allInstrs(fn, func(in ssa.Instruction) {
		if c, ok := in.(*ssa.Call); ok && c.Common().StaticCallee() == runjs {
			js = append(js, c)
		}
	})
	if len(js) == 0 {
		q.r.exempt("QSEM-CODE", key, q.w.Pos(fn.Pos()), "no direct call of core.RunJavascript: shape not recognised, not decided")
		return
	}
	isJS := func(v ssa.Value) bool {
		for _, c := range js {
			if v == ssa.Value(c) {
				return true
			}
		}
		return false
	}
	k := key + " vars"
	okVars := true
	for _, c := range js {
		dep := false
		for _, a := range c.Call.Args {
			if dependsOn(a, isElem) {
				dep = true
			}
		}
		if !dep {
			okVars = false
			q.r.violation("QSEM-CODE", k, q.w.PosOf(c), "the script does not run with the incoming binding as its variables")
		}
	}
	if okVars {
		q.r.ok("QSEM-CODE", k, q.w.PosOf(js[0]), "the script sees the incoming binding")
	}
	apps := q.bindingsAppends(fn)
	isMakeMap := func(v ssa.Value) bool { _, ok := v.(*ssa.MakeMap); return ok }
	var keep, fresh []*ssa.Call
	for _, a := range apps {
		for _, e := range appendedElems(a) {
			if dependsOn(e, isMakeMap) {
				fresh = append(fresh, a)
			} else if dependsOn(e, isElem) {
				keep = append(keep, a)
			}
		}
	}
	isAnyApp := func(x ssa.Instruction) bool {
		for _, a := range append(append([]*ssa.Call{}, keep...), fresh...) {
			if x == ssa.Instruction(a) {
				return true
			}
		}
		return false
	}
	isKeep := func(x ssa.Instruction) bool {
		for _, a := range keep {
			if x == ssa.Instruction(a) {
				return true
			}
		}
		return false
	}
	// edges: the script's value is the bool true / is not nil
	posDel, negDel := map[bedge]bool{}, map[bedge]bool{}
	nBool, nNil := 0, 0
	for _, b := range fn.Blocks {
		if len(b.Instrs) == 0 {
			continue
		}
		ifi, ok := b.Instrs[len(b.Instrs)-1].(*ssa.If)
		if !ok {
			continue
		}
		ct, ok := decodeIf(ifi)
		if !ok {
			continue
		}
		v := resolveSpill(ct.V)
		if !dependsOn(v, isJS) {
			continue
		}
		switch ct.TrueWhen {
		case "true", "false":
			// a bool taken out of the script's value by a type assertion (value #0, not the `ok` flag)
			isVal := false
			switch x := v.(type) {
			case *ssa.Extract:
				if ta, ok := x.Tuple.(*ssa.TypeAssert); ok && x.Index == 0 {
					if bt, ok := ta.AssertedType.Underlying().(*types.Basic); ok && bt.Kind() == types.Bool {
						isVal = true
					}
				}
			case *ssa.TypeAssert:
				if bt, ok := x.AssertedType.Underlying().(*types.Basic); ok && bt.Kind() == types.Bool && !x.CommaOk {
					isVal = true
				}
			}
			if !isVal {
				continue
			}
			nBool++
			t := 0
			if ct.TrueWhen == "false" {
				t = 1
			}
			posDel[bedge{b, t}] = true
			negDel[bedge{b, 1 - t}] = true
		case "nonnil", "nil":
			if _, isI := v.Type().Underlying().(*types.Interface); !isI || isErrorType(v.Type()) {
				continue
			}
			nNil++
			t := 0
			if ct.TrueWhen == "nil" {
				t = 1
			}
			posDel[bedge{b, t}] = true
			negDel[bedge{b, 1 - t}] = true
		}
	}
	k = key + " keep"
	switch {
	case len(keep) == 0:
		q.r.violation("QSEM-CODE", k, q.w.PosOf(js[0]), "the incoming binding is never appended to the result: a script that evaluates to true keeps nothing")
	case nBool == 0 && nNil == 0:
		q.r.violation("QSEM-CODE", k, q.w.PosOf(keep[0]), "the incoming binding is kept without any test of the script's value")
	default:
		bad := false
		for _, c := range js {
			if h, _ := reach(fn, c, isKeep, nil, edgeFilterOf(posDel)); h != nil {
				q.r.violation("QSEM-CODE", k, q.w.PosOf(h), "the incoming binding can be kept although the script's value is false or null")
				bad = true
				break
			}
			target := func(x ssa.Instruction) bool { return x == ssa.Instruction(c) || isSuccessReturnPS(x) }
			if h, path := reach(fn, c, target, isAnyApp, edgeFilterOf(negDel)); h != nil {
				q.r.violation("QSEM-CODE", k, q.w.PosOf(h), "a binding whose script value is true / non-null can be dropped: with the false and nil edges deleted a path from the script to the next binding avoids every append", blockPathString(q.w, path)...)
				bad = true
				break
			}
		}
		if !bad {
			q.r.ok("QSEM-CODE", k, q.w.PosOf(keep[0]), fmt.Sprintf("kept exactly on true / non-null (%d bool tests, %d nil tests)", nBool, nNil))
		}
	}
	// merge
	k = key + " merge"
	if len(fresh) == 0 {
		q.r.violation("QSEM-CODE", k, q.w.PosOf(js[0]), "an object returned by the script is never merged into a new binding")
	} else {
		var mm *ssa.MakeMap
		for _, e := range appendedElems(fresh[0]) {
			dependsOn(e, func(v ssa.Value) bool {
				if m, ok := v.(*ssa.MakeMap); ok && mm == nil {
					mm = m
				}
				return false
			})
		}
		copiesIncoming, mergesResult, prefixed := false, false, false
		if mm != nil {
			for _, ref := range *mm.Referrers() {
				mu, ok := ref.(*ssa.MapUpdate)
				if !ok || mu.Map != ssa.Value(mm) {
					continue
				}
				rangeSrc := func(v ssa.Value) ssa.Value {
					ex, ok := v.(*ssa.Extract)
					if !ok {
						return nil
					}
					nx, ok := ex.Tuple.(*ssa.Next)
					if !ok {
						return nil
					}
					rg, ok := nx.Iter.(*ssa.Range)
					if !ok {
						return nil
					}
					return rg.X
				}
				if src := rangeSrc(mu.Value); src != nil {
					if dependsOn(src, isJS) {
						mergesResult = true
						if bo, ok := mu.Key.(*ssa.BinOp); ok && bo.Op == token.ADD {
							if s, ok := constString(bo.X); ok && s == "?" {
								prefixed = true
							}
						}
					} else if dependsOn(src, isElem) {
						copiesIncoming = true
					}
				}
			}
		}
		switch {
		case mm == nil:
			q.r.exempt("QSEM-CODE", k, q.w.PosOf(fresh[0]), "the merged binding is not a map made in this function: shape not recognised, not decided")
		case !copiesIncoming:
			q.r.violation("QSEM-CODE", k, q.w.PosOf(mm), "the new binding does not receive the entries of the incoming binding: variables bound so far are lost when a script returns an object")
		case !mergesResult:
			q.r.violation("QSEM-CODE", k, q.w.PosOf(mm), "the entries of the object returned by the script are not put into the new binding")
		case !prefixed:
			q.r.violation("QSEM-CODE", k, q.w.PosOf(mm), "the entries of the returned object are not stored under \"?\"-prefixed keys: they are not variables for later patterns and actions")
		default:
			q.r.ok("QSEM-CODE", k, q.w.PosOf(mm), "copy of the incoming binding plus the returned object's entries as ?-variables")
		}
	}
	q.resultFromAppends(fn, key, apps)
	q.everyLoopExhaustive("QSEM-EVERY", fn, nil)
}

// ---- empty ----------------------------------------------------------------------------------------

func (q *qsem) ruleEmpty() {
	fn := q.execFn("EmptyQuery")
	qr := q.qrParam(fn)
	key := "fn=" + fname(fn)
	isQr := func(v ssa.Value) bool { return v == ssa.Value(qr) }
	isProducer := func(v ssa.Value) bool {
		switch x := v.(type) {
		case *ssa.MakeSlice, *ssa.MakeMap:
			return true
		case *ssa.Call:
			if _, ok := x.Common().Value.(*ssa.Builtin); ok {
				return true
			}
			return q.isBindingsSlice(x.Type())
		case *ssa.Alloc:
			_, isArr := x.Type().(*types.Pointer).Elem().Underlying().(*types.Array)
			return isArr
		}
		return false
	}
	bad := false
	n := 0
	for _, ret := range q.successReturns(fn) {
		n++
		v := resolveSpill(ret.Results[0])
		// the Bss stored into the returned object (or the object is the input itself)
		var bss []ssa.Value
		if a, ok := v.(*ssa.Alloc); ok {
			dependsOn(a, func(x ssa.Value) bool { return false })
			for _, ref := range *a.Referrers() {
				switch y := ref.(type) {
				case *ssa.Store:
					if y.Addr == ssa.Value(a) {
						// whole-struct store: look into the stored struct value
						bss = append(bss, y.Val)
					}
				case *ssa.FieldAddr:
					if y.Field == 0 {
						for _, z := range *y.Referrers() {
							if st, ok := z.(*ssa.Store); ok && st.Addr == ssa.Value(y) {
								bss = append(bss, st.Val)
							}
						}
					}
				}
			}
		} else {
			bss = append(bss, v)
		}
		for _, b := range bss {
			if !dependsOn(b, isQr) || dependsOn(b, isProducer) {
				bad = true
				q.r.violation("QSEM-EMPTY", key, q.w.PosOf(ret), "the bindings returned by the empty query are not the incoming bindings")
			}
		}
		if len(bss) == 0 {
			bad = true
			q.r.violation("QSEM-EMPTY", key, q.w.PosOf(ret), "the empty query returns a result whose bindings are never set")
		}
	}
	if !bad && n > 0 {
		q.r.ok("QSEM-EMPTY", key, q.w.Pos(fn.Pos()), "returns the incoming bindings")
		q.r.ok("QSEM-RESULT", key, q.w.Pos(fn.Pos()), "returns the input")
	}
}

// ---- parse ----------------------------------------------------------------------------------------

func (q *qsem) ruleParse() {
	parse := q.w.Func("core", "ParseQuery")
	iface := q.query.Underlying().(*types.Interface)
	// functions below ParseQuery (static calls, depth <= 3, core only)
	below := map[*ssa.Function]bool{}
	var walk func(f *ssa.Function, d int)
	walk = func(f *ssa.Function, d int) {
		if f == nil || below[f] || d > 3 || q.w.RelPkg(f) != "core" || len(f.Blocks) == 0 {
			return
		}
		below[f] = true
		withAnon(f, func(g *ssa.Function) {
			below[g] = true
			allInstrs(g, func(in ssa.Instruction) {
				if c := callOf(in); c != nil {
					walk(c.StaticCallee(), d+1)
				}
			})
		})
	}
	walk(parse, 0)
	produced := map[string]string{}
	for f := range below {
		allInstrs(f, func(in ssa.Instruction) {
			mi, ok := in.(*ssa.MakeInterface)
			if !ok {
				return
			}
			if _, isI := mi.Type().Underlying().(*types.Interface); !isI {
				return
			}
			t := mi.X.Type()
			if p, ok := t.(*types.Pointer); ok {
				t = p.Elem()
			}
			if n := namedOf(t); n != nil && types.Implements(mi.X.Type(), iface) {
				if _, have := produced[typeKey(n)]; !have {
					produced[typeKey(n)] = q.w.PosOf(in)
				}
			}
		})
	}
	var impls []string
	pos := map[string]string{}
	for _, n := range q.w.Implementers(iface) {
		if typeRel(n) != "core" {
			continue
		}
		if fn := q.w.TryMethod("core", n.Obj().Name(), "Exec"); fn == nil || isTestFile(q.w, fn) {
			continue
		}
		impls = append(impls, typeKey(n))
		pos[typeKey(n)] = q.w.Pos(n.Obj().Pos())
	}
	sort.Strings(impls)
	for _, t := range impls {
		key := "type=" + t
		if p, ok := produced[t]; ok {
			q.r.ok("QSEM-PARSE", key, p, "produced below ParseQuery")
		} else {
			q.r.violation("QSEM-PARSE", key, pos[t], "this implementation of core.Query is never produced by ParseQuery or a function it calls: rules cannot use it")
		}
	}
}

func init() {
	register(&propertySpec{
		ID:      "C03",
		Explain: "Static data-dependence and edge-deleted reachability rules for the wiring of the query combinators (how and/or/not/pattern/code/empty hand bindings to their sub-queries, which results they keep, when they stop).  Decides that wiring only: which bindings a pattern produces (matching, search), multiset equality with a reference evaluator and the scripts' values are value-level and not decided.",
		Rules:   []ruleFn{ruleCodeBindingsOwn("C03"), ruleLoopScratch("C03"), ruleQuerySemantics, ruleLoopAlias, ruleReadPure, ruleLoopExhaust("C03"), ruleTermPrepared("C03"), ruleModPure, ruleBindPresence("C03"), ruleQueryPure("C03"), ruleCodeResultMap, ruleTermNumbers("C03")},
	})
}
