package main

// rules_script.go: C14 — script execution is contained (JS-ERR, RECOVER-RESULT, CHAN-HANDSHAKE, DISP-ERR).

import (
	"go/token"
	"go/types"
	"strings"

	"golang.org/x/tools/go/ssa"
)

const ottoPath = "github.com/robertkrimen/otto"

func isOttoErrCall(c *ssa.CallCommon) (string, bool) {
	o := calleeObj(c)
	if o == nil || o.Pkg() == nil || o.Pkg().Path() != ottoPath {
		return "", false
	}
	if errorResultIndex(c.Signature()) < 0 {
		return "", false
	}
	switch o.Name() {
	case "Run", "Compile", "Eval":
	case "Export":
		// only the export of a script's result (a value that derives from Run), not of a callback argument
		if len(c.Args) == 0 || !dependsOn(c.Args[0], func(v ssa.Value) bool {
			call, ok := v.(*ssa.Call)
			if !ok {
				return false
			}
			o2 := calleeObj(call.Common())
			return o2 != nil && o2.Pkg() != nil && o2.Pkg().Path() == ottoPath && (o2.Name() == "Run" || o2.Name() == "Eval")
		}) {
			return "", false
		}
	default:
		return "", false // argument conversions and Set are not script executions
	}
	n := recvNamed(o)
	name := o.Name()
	if n != nil {
		name = n.Obj().Name() + "." + name
	}
	return "otto." + name, true
}

var jsErrExemptions = map[string]string{}

func ruleJsErr(w *World, r *Report) {
	r.Rule("JS-ERR", "error discipline for scripts: the error of every call into the JavaScript engine (compile, run, export, set, argument conversion) and of every function whose error can derive from one (RunJavascript, CompileJavascript, the Query.Exec implementations, ExecQuery, ExecAction ...) reaches the caller's error result, a result object (a work-tree node's Disposition) or a handler (throwJavascript) on every path on which it is non-nil: a script that throws or does not compile is never reported as success", 30)
	srcs := newErrSources(w, isOttoErrCall)
	scope := func(fn *ssa.Function) bool { return w.RelPkg(fn) == "core" }
	runErrFlow(w, r, "JS-ERR", srcs, scope, jsErrExemptions, errflowCfg{handler: defaultErrHandlers, allowClassify: true, successOnly: true})
}

// RECOVER-RESULT: a deferred recover() that swallows a panic must give the function a non-nil error result.
func ruleRecoverResult(w *World, r *Report) {
	r.Rule("RECOVER-RESULT", "a deferred function that recovers a panic and returns normally (swallows it) must store a non-nil value into a *named* error result of the enclosing function; otherwise the function returns its zero results, i.e. (nil, nil): an interrupted script is reported as success", 1)
	n := 0
	for _, fn := range w.Funcs {
		if isTestFile(w, fn) || fn.Parent() == nil {
			continue
		}
		p := w.RelPkg(fn)
		if p != "core" && p != "sys" && p != "service" && p != "cron" {
			continue
		}
		// fn is a function literal; does it call recover() and is it deferred by its parent?
		var rec *ssa.Call
		allInstrs(fn, func(in ssa.Instruction) {
			if c, ok := in.(*ssa.Call); ok {
				if b, ok := c.Common().Value.(*ssa.Builtin); ok && b.Name() == "recover" {
					rec = c
				}
			}
		})
		if rec == nil {
			continue
		}
		parent := fn.Parent()
		deferred := false
		allInstrs(parent, func(in ssa.Instruction) {
			if d, ok := in.(*ssa.Defer); ok {
				if mc, ok := d.Call.Value.(*ssa.MakeClosure); ok && mc.Fn == fn {
					deferred = true
				}
				if d.Call.Value == ssa.Value(fn) {
					deferred = true
				}
			}
		})
		if !deferred {
			continue
		}
		n++
		key := "deferred recover in " + fname(parent)
		// does the closure swallow? i.e. is there a path from the recover call, on its non-nil edge, to a Return (not a re-panic)?
		swallows := false
		if h, _ := reach(fn, rec, func(in ssa.Instruction) bool { _, ok := in.(*ssa.Return); return ok }, func(in ssa.Instruction) bool { _, ok := in.(*ssa.Panic); return ok }, func(from *ssa.BasicBlock, si int) bool {
			// delete the edge on which the recovered value is nil
			if len(from.Instrs) == 0 {
				return true
			}
			if ifi, ok := from.Instrs[len(from.Instrs)-1].(*ssa.If); ok {
				if ct, ok := decodeIf(ifi); ok && ct.V == ssa.Value(rec) {
					if ct.TrueWhen == "nonnil" && si == 1 {
						return false
					}
					if ct.TrueWhen == "nil" && si == 0 {
						return false
					}
				}
			}
			return true
		}); h != nil {
			swallows = true
		}
		if !swallows {
			r.ok("RECOVER-RESULT", key, w.Pos(fn.Pos()), "the deferred function re-panics whatever it recovers")
			continue
		}
		idx := errorResultIndex(parent.Signature)
		if idx < 0 {
			r.info("RECOVER-RESULT", key, w.Pos(fn.Pos()), "the enclosing function has no error result")
			continue
		}
		// the closure must store to the parent's named error result: a FreeVar of type *error bound to the parent's result slot
		setsErr := false
		allInstrs(fn, func(in ssa.Instruction) {
			st, ok := in.(*ssa.Store)
			if !ok {
				return
			}
			fv, ok := st.Addr.(*ssa.FreeVar)
			if !ok {
				return
			}
			if pt, ok := fv.Type().(*types.Pointer); ok && isErrorType(pt.Elem()) && !isNilConst(st.Val) {
				setsErr = true
			}
		})
		if setsErr {
			r.ok("RECOVER-RESULT", key, w.Pos(fn.Pos()), "the swallowed panic is turned into the function's error result")
		} else {
			r.violation("RECOVER-RESULT", key, w.Pos(fn.Pos()), "the deferred function swallows a recovered panic but never sets the enclosing function's error result: the caller gets (nil, nil)")
		}
	}
	r.stat("RECOVER-RESULT.deferred_recovers", n)
}

// CHAN-HANDSHAKE: a deferred send on a locally made unbuffered channel must not be able to block forever.
func ruleChanHandshake(w *World, r *Report) {
	r.Rule("CHAN-HANDSHAKE", "a send on a channel made in the same function with no buffer is safe only if it sits in a select with an alternative, or the only receiver (a goroutine started in that function) has no other way to finish than receiving from it; a receiver that can leave through another select arm (a timer) lets the sender block forever — in RunJavascript that is the caller of a script that timed out", 1)
	n := 0
	for _, fn := range w.Funcs {
		if isTestFile(w, fn) {
			continue
		}
		p := w.RelPkg(fn)
		if p != "core" && p != "sys" && p != "service" && p != "cron" && p != "crolt" {
			continue
		}
		allInstrs(fn, func(in ssa.Instruction) {
			mk, ok := in.(*ssa.MakeChan)
			if !ok {
				return
			}
			szc, ok := mk.Size.(*ssa.Const)
			if !ok {
				return // dynamic size
			}
			capacity := int(szc.Int64())
			// sends and receives on this channel anywhere in fn or its function literals
			var sends []ssa.Instruction
			type recvInfo struct {
				in       ssa.Instruction
				inSelect bool
				arms     int
				fn       *ssa.Function
			}
			var recvs []recvInfo
			chanVals := map[ssa.Value]bool{mk: true}
			// the channel may be stored into a local slot captured by closures
			var slots []ssa.Value
			if mk.Referrers() != nil {
				for _, ref := range *mk.Referrers() {
					if st, ok := ref.(*ssa.Store); ok && st.Val == ssa.Value(mk) {
						slots = append(slots, st.Addr)
					}
				}
			}
			isChan := func(f *ssa.Function, v ssa.Value) bool {
				if chanVals[v] {
					return true
				}
				if u, ok := v.(*ssa.UnOp); ok && u.Op == token.MUL {
					for _, s := range slots {
						if u.X == s {
							return true
						}
					}
					// a free variable bound to one of the slots
					if fv, ok := u.X.(*ssa.FreeVar); ok {
						return freeVarBoundTo(f, fv, slots)
					}
				}
				return false
			}
			withAnon(fn, func(f *ssa.Function) {
				allInstrs(f, func(x ssa.Instruction) {
					switch y := x.(type) {
					case *ssa.Send:
						if isChan(f, y.Chan) {
							sends = append(sends, x)
						}
					case *ssa.UnOp:
						if y.Op == token.ARROW && isChan(f, y.X) {
							recvs = append(recvs, recvInfo{x, false, 1, f})
						}
					case *ssa.Select:
						for _, st := range y.States {
							if isChan(f, st.Chan) {
								if st.Dir == types.SendOnly {
									if len(y.States) > 1 || !y.Blocking {
										// a send inside a select with alternatives is fine
									} else {
										sends = append(sends, x)
									}
								} else {
									recvs = append(recvs, recvInfo{x, true, len(y.States), f})
								}
							}
						}
					}
				})
			})
			if len(sends) == 0 {
				return
			}
			// a channel that is returned or stored somewhere else has receivers we cannot see: not decided here
			escapes := false
			if mk.Referrers() != nil {
				for _, ref := range *mk.Referrers() {
					switch y := ref.(type) {
					case *ssa.Return:
						escapes = true
					case *ssa.Store:
						if _, local := addrRoot(y.Addr).(*ssa.Alloc); !local {
							escapes = true
						}
					case ssa.CallInstruction:
						escapes = true
					}
				}
			}
			// ... also through local slots (a variable captured by a closure, a result slot of a function with defers)
			var loadsEscape func(a *ssa.Alloc, depth int) bool
			loadsEscape = func(a *ssa.Alloc, depth int) bool {
				if depth > 3 {
					return false
				}
				for _, ref := range *a.Referrers() {
					u, ok := ref.(*ssa.UnOp)
					if !ok || u.Referrers() == nil {
						continue
					}
					for _, r2 := range *u.Referrers() {
						switch y := r2.(type) {
						case *ssa.Return:
							return true
						case *ssa.Store:
							if y.Val != ssa.Value(u) {
								continue
							}
							if a2, ok := y.Addr.(*ssa.Alloc); ok {
								if loadsEscape(a2, depth+1) {
									return true
								}
							} else if _, local := addrRoot(y.Addr).(*ssa.Alloc); !local {
								return true
							}
						}
					}
				}
				return false
			}
			for _, sl := range slots {
				if a, ok := sl.(*ssa.Alloc); ok && loadsEscape(a, 0) {
					escapes = true
				}
			}
			if escapes {
				return
			}
			n++
			key := "channel made in " + fname(fn)
			if capacity > 0 {
				// buffered: safe when the capacity covers every send site and none of them is in a loop
				inLoop := false
				for _, sd := range sends {
					if reachable(sd.Parent(), sd, sd) {
						inLoop = true
					}
				}
				if capacity >= len(sends) && !inLoop {
					r.ok("CHAN-HANDSHAKE", key, w.PosOf(sends[0]), "buffered with capacity "+itoa(capacity)+" >= "+itoa(len(sends))+" send site(s): the send cannot block")
				} else {
					r.info("CHAN-HANDSHAKE", key, w.PosOf(sends[0]), "buffered channel with more send sites than capacity (or a send in a loop): not decided by this rule")
				}
				return
			}
			// safe iff every receiver is a plain receive (or a single-arm select): it cannot leave otherwise
			bad := ""
			if len(recvs) == 0 {
				bad = "nobody receives from it"
			}
			for _, rc := range recvs {
				if rc.inSelect && rc.arms > 1 {
					bad = "its receiver at " + w.PosOf(rc.in) + " sits in a select with " + itoa(rc.arms) + " arms and can finish through another arm, after which the send at " + w.PosOf(sends[0]) + " blocks forever"
				}
			}
			if bad != "" {
				r.violation("CHAN-HANDSHAKE", key, w.PosOf(sends[0]), "send on an unbuffered channel can block forever: "+bad)
			} else {
				r.ok("CHAN-HANDSHAKE", key, w.PosOf(sends[0]), "the receiver cannot finish without receiving")
			}
		})
	}
	r.stat("CHAN-HANDSHAKE.local_channels_with_sends", n)
}

// freeVarBoundTo: fv of closure f is bound (in the MakeClosure that created f) to one of the slots.
func freeVarBoundTo(f *ssa.Function, fv *ssa.FreeVar, slots []ssa.Value) bool {
	parent := f.Parent()
	if parent == nil {
		return false
	}
	idx := -1
	for i, x := range f.FreeVars {
		if x == fv {
			idx = i
		}
	}
	if idx < 0 {
		return false
	}
	res := false
	allInstrs(parent, func(in ssa.Instruction) {
		if mc, ok := in.(*ssa.MakeClosure); ok && mc.Fn == f && idx < len(mc.Bindings) {
			for _, s := range slots {
				if mc.Bindings[idx] == s {
					res = true
				}
			}
			// nested: binding is itself a free variable of the parent
			if pfv, ok := mc.Bindings[idx].(*ssa.FreeVar); ok && freeVarBoundTo(parent, pfv, slots) {
				res = true
			}
		}
	})
	return res
}

// DISP-ERR: a work-tree node is marked Complete only on the no-error edge of its execution.
func ruleDispErr(w *World, r *Report) {
	r.Rule("DISP-ERR", "in the Do methods of the work-tree nodes that run a script (EvalRuleCondition.Do -> ExecQuery, ExecRuleAction.Do -> ExecAction) the store of Complete into Disposition lies behind the err == nil edge of that execution, and WorkWalk appends an action's value only when its disposition is Complete", 2)
	type site struct{ typ, callee string }
	for _, s := range []site{{"EvalRuleCondition", "ExecQuery"}, {"ExecRuleAction", "ExecAction"}} {
		fn := w.Method("core", s.typ, "Do")
		key := "fn=" + fname(fn)
		gate := gateSpec{Name: s.callee, FailWhen: "nonnil", Idx: 1, IsGate: func(c *ssa.CallCommon) bool {
			o := calleeObj(c)
			return o != nil && o.Name() == s.callee && o.Pkg() != nil && o.Pkg().Path() == modPath+"/core"
		}}
		// paths on which the execution call happened: from the call, delete its pass edge; the Complete store must be unreachable
		var calls []ssa.Instruction
		allInstrs(fn, func(in ssa.Instruction) {
			if c := callOf(in); c != nil && gate.IsGate(c) {
				if _, isDefer := in.(*ssa.Defer); !isDefer {
					calls = append(calls, in)
				}
			}
		})
		if len(calls) == 0 {
			r.violation("DISP-ERR", key, w.Pos(fn.Pos()), "the node no longer runs "+s.callee)
			continue
		}
		g := newGateEngine(w, []gateSpec{gate}, nil, nil)
		ef, _ := g.passEdgeFilter(fn)
		isCompleteStore := func(in ssa.Instruction) bool {
			st, ok := storesToField(in, "core."+s.typ, "Disposition")
			if !ok {
				return false
			}
			u, ok := st.Val.(*ssa.UnOp)
			if !ok {
				return false
			}
			gl, ok := u.X.(*ssa.Global)
			return ok && gl.Name() == "Complete"
		}
		bad := false
		for _, c := range calls {
			if h, _ := reach(fn, c, isCompleteStore, nil, ef); h != nil {
				bad = true
				r.violation("DISP-ERR", key, w.PosOf(h), "the node can be marked complete on the error edge of "+s.callee)
			}
		}
		if !bad {
			r.ok("DISP-ERR", key, w.Pos(fn.Pos()), "Complete only on the err == nil edge of "+s.callee)
		}
	}
}

var _ = strings.Contains

func init() {
	register(&propertySpec{
		ID:      "C14",
		Explain: "Static error-flow and shape rules for script execution: script errors reach the node that ran the script, a recovered interrupt becomes an error, the watchdog hand-shake cannot block the caller, nodes are complete only without error. Does not decide that the interrupt actually stops the engine within a bound, the timeout arithmetic, or what a finishing script sees.",
		Rules:   []ruleFn{ruleCtxScript, ruleTimerRecycle, ruleLoopScratch("C14"), ruleJsErr, ruleRecoverResult, ruleChanHandshake, ruleTimeoutUnset, ruleAncSelfLast, ruleAncRestore, ruleDispErr, ruleThunkLazy, ruleCtorParam("C14"), ruleRecoverAll("C14"), ruleTypedNil("C14"), ruleMemoKey("C14")},
	})
}
