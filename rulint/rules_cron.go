package main

// rules_cron.go: C16 — cron services (CRON-UNIQ, CRON-DUE for the in-memory cron; TXSCOPE, TX-ATOMIC, TX-SIBLING,
// KEY-FIXEDWIDTH for the Bolt-backed crolt).

import (
	"go/token"
	"go/types"
	"strings"

	"golang.org/x/tools/go/ssa"
)

func ruleCronUniq(w *World, r *Report) {
	r.Rule("CRON-UNIQ", "in the in-memory cron every insertion into the Timeline is preceded, in the same critical section, by the removal of any pending job with the same id (on every path, also when a running job re-schedules itself): at most one pending entry per job id", 1)
	ins := w.Method("cron", "Cron", "insert")
	rem := w.Method("cron", "Cron", "rem")
	e := newLocksetEngine(w, guardsCron())
	lock := "cron.Cron.Mutex"
	n := 0
	for _, ed := range w.Callers(ins) {
		fn := ed.Caller.Func
		if isTestFile(w, fn) {
			continue
		}
		n++
		site := ed.Site.(ssa.Instruction)
		key := "caller=" + fname(fn)
		jobArg := ed.Site.Common().Args[2]
		isRemSameID := func(in ssa.Instruction) bool {
			c := callOf(in)
			if c == nil || c.StaticCallee() != rem || len(c.Args) < 3 {
				return false
			}
			// the id argument is job.Id of the same job
			return dependsOn(c.Args[2], func(v ssa.Value) bool {
				fa, ok := v.(*ssa.FieldAddr)
				if !ok {
					return false
				}
				_, f, base, ok := fieldOf(fa)
				return ok && f == "Id" && base == jobArg
			})
		}
		if h, path := reach(fn, nil, func(in ssa.Instruction) bool { return in == site }, isRemSameID, nil); h != nil {
			r.violation("CRON-UNIQ", key, w.PosOf(site), "a job can be inserted into the Timeline without first removing the pending job with the same id: two entries for one id, the job fires twice and survives Rem", blockPathString(w, path)...)
			continue
		}
		// no release between the rem and the insert
		bad := false
		allInstrs(fn, func(in ssa.Instruction) {
			if isRemSameID(in) && reachable(fn, in, site) {
				if x := between(fn, in, site, func(y ssa.Instruction) bool { return e.releases(y, lock) }); x != nil {
					bad = true
				}
			}
		})
		if bad {
			r.violation("CRON-UNIQ", key, w.PosOf(site), "the cron lock is released between removing the old entry and inserting the new one")
		} else {
			r.ok("CRON-UNIQ", key, w.PosOf(site), "remove-then-insert in one critical section on every path")
		}
	}
	if n == 0 {
		r.violation("CRON-UNIQ", "caller=<none>", w.Pos(ins.Pos()), "nobody calls Cron.insert (anchor changed)")
	}
}

func ruleCronDue(w *World, r *Report) {
	r.Rule("CRON-DUE", "in the in-memory cron's loop a job is launched (go run) only on the edge of a comparison of the current time with the job's Next time; and Rem / the re-scheduling of a job go through the same locked primitives", 1)
	st := w.Method("cron", "Cron", "start")
	run := w.Method("cron", "Cron", "run")
	var launches []ssa.Instruction
	allInstrs(st, func(in ssa.Instruction) {
		g, ok := in.(*ssa.Go)
		if !ok {
			return
		}
		launch := false
		for _, callee := range w.Callees(g) {
			if callee == run {
				launch = true
			}
			allInstrs(callee, func(x ssa.Instruction) {
				if c := callOf(x); c != nil && c.StaticCallee() == run {
					launch = true
				}
			})
		}
		if mc, ok := g.Call.Value.(*ssa.MakeClosure); ok {
			allInstrs(mc.Fn.(*ssa.Function), func(x ssa.Instruction) {
				if c := callOf(x); c != nil && c.StaticCallee() == run {
					launch = true
				}
			})
		}
		if launch {
			launches = append(launches, in)
		}
	})
	key := "fn=" + fname(st)
	if len(launches) == 0 {
		r.violation("CRON-DUE", key, w.Pos(st.Pos()), "cannot find where the loop launches a job (shape changed)")
		return
	}
	isDueCmp := func(v ssa.Value) bool {
		c, ok := v.(*ssa.Call)
		if !ok {
			return false
		}
		o := calleeObj(c.Common())
		if o == nil || (o.Name() != "Before" && o.Name() != "After" && o.Name() != "Sub") {
			return false
		}
		n := recvNamed(o)
		if n == nil || n.Obj().Pkg() == nil || n.Obj().Pkg().Path() != "time" {
			return false
		}
		for _, a := range c.Common().Args {
			if dependsOn(a, func(x ssa.Value) bool {
				fa, ok := x.(*ssa.FieldAddr)
				if !ok {
					return false
				}
				_, f, _, ok := fieldOf(fa)
				return ok && f == "Next"
			}) {
				return true
			}
		}
		return false
	}
	// ... or the job comes out of the head of the timeline that Timeline.Search(now) cut off (firing everything that is
	// due in one pass): premise, checked: Search compares its argument with the Next of the entries
	isDueSearch := func(v ssa.Value) bool {
		c, ok := v.(*ssa.Call)
		if !ok || c.Common().StaticCallee() == nil {
			return false
		}
		f := c.Common().StaticCallee()
		if f.Name() != "Search" || w.RelPkg(f) != "cron" {
			return false
		}
		cmp := false
		withAnon(f, func(g *ssa.Function) {
			allInstrs(g, func(x ssa.Instruction) {
				if xv, isV := x.(ssa.Value); isV && isDueCmp(xv) {
					cmp = true
				}
			})
		})
		if !cmp {
			return false
		}
		// the time it is asked about is the clock's
		for _, a := range c.Common().Args {
			if dependsOn(a, func(x ssa.Value) bool {
				cc, isC := x.(*ssa.Call)
				return isC && cc.Common().StaticCallee() != nil && cc.Common().StaticCallee().Name() == "Now" && cc.Common().StaticCallee().Pkg != nil && cc.Common().StaticCallee().Pkg.Pkg.Path() == "time"
			}) {
				return true
			}
		}
		return false
	}
	for _, l := range launches {
		if controlDependsOn(st, l, isDueCmp) {
			r.ok("CRON-DUE", key, w.PosOf(l), "the launch is control dependent on a comparison with job.Next")
		} else if controlDependsOn(st, l, isDueSearch) {
			r.ok("CRON-DUE", key, w.PosOf(l), "the launch is bounded by Timeline.Search(now), which compares with the entries' Next")
		} else {
			r.violation("CRON-DUE", key, w.PosOf(l), "a job is launched without a comparison of the current time with its Next time: it can fire early")
		}
	}
}

// ---- crolt -----------------------------------------------------------------------------------------

func boltBucketOp(c *ssa.CallCommon) (op string, ok bool) {
	o := calleeObj(c)
	if o == nil {
		return "", false
	}
	n := recvNamed(o)
	if n == nil || n.Obj().Pkg() == nil || n.Obj().Pkg().Path() != boltPath || n.Obj().Name() != "Bucket" {
		return "", false
	}
	switch o.Name() {
	case "Put", "Delete", "Get":
		return o.Name(), true
	}
	return "", false
}

// bucketKind: the bucket receiver of the call derives from a name built with constant prefix "jobs" / "time".
func bucketKind(c *ssa.CallCommon) string {
	if len(c.Args) == 0 {
		return ""
	}
	kind := ""
	dependsOnThroughClosures(c.Args[0], func(v ssa.Value) bool {
		if b, ok := v.(*ssa.BinOp); ok && b.Op == token.ADD {
			if s, ok := constString(b.X); ok && (s == "jobs" || s == "time") {
				kind = s
				return true
			}
		}
		return false
	})
	return kind
}

// dependsOnThroughClosures: dependsOn that also follows free variables to the values bound in the enclosing function.
func dependsOnThroughClosures(v ssa.Value, pred func(ssa.Value) bool) bool {
	return dependsOn(v, func(x ssa.Value) bool {
		if pred(x) {
			return true
		}
		if fv, ok := x.(*ssa.FreeVar); ok {
			f := fv.Parent()
			parent := f.Parent()
			if parent == nil {
				return false
			}
			idx := -1
			for i, y := range f.FreeVars {
				if y == fv {
					idx = i
				}
			}
			found := false
			allInstrs(parent, func(in ssa.Instruction) {
				if mc, ok := in.(*ssa.MakeClosure); ok && mc.Fn == ssa.Value(f) && idx >= 0 && idx < len(mc.Bindings) {
					if dependsOnThroughClosures(mc.Bindings[idx], pred) {
						found = true
					}
				}
			})
			return found
		}
		return false
	})
}

func ruleTxSibling(w *World, r *Report) {
	r.Rule("TX-SIBLING", "in crolt every transaction closure that writes the job table (jobs<p>) writes the time index (time<p>) on the same path, for Put and for Delete alike: the two buckets stay mutually consistent after every operation", 2)
	cl := txClosures(w, func(fn *ssa.Function) bool { return w.RelPkg(fn) == "crolt" })
	var fns []*ssa.Function
	for f := range cl {
		fns = append(fns, f)
	}
	sortFuncs(fns)
	for _, f := range fns {
		for _, op := range []string{"Put", "Delete"} {
			is := func(kind string) func(ssa.Instruction) bool {
				return func(in ssa.Instruction) bool {
					c := callOf(in)
					if c == nil {
						return false
					}
					o, ok := boltBucketOp(c)
					return ok && o == op && bucketKind(c) == kind
				}
			}
			var jobsOps, timeOps []ssa.Instruction
			allInstrs(f, func(in ssa.Instruction) {
				if is("jobs")(in) {
					jobsOps = append(jobsOps, in)
				}
				if is("time")(in) {
					timeOps = append(timeOps, in)
				}
			})
			if len(jobsOps) == 0 && len(timeOps) == 0 {
				continue
			}
			key := "closure in " + fname(outermost(f)) + " op=" + op
			// Delete of the *old* time entry inside update is conditional on there being one: only pair Put<->Put and, for Delete, jobs=>time
			bad := ""
			check := func(as []ssa.Instruction, other func(ssa.Instruction) bool, what string) {
				for _, a := range as {
					a := a
					before, _ := reach(f, nil, func(x ssa.Instruction) bool { return x == a }, other, nil)
					// an error return rolls the transaction back: only success returns count
					after, _ := reachPSA(f, a, isSuccessReturn, other, nil)
					if before != nil && after != nil && bad == "" {
						bad = what + " at " + w.PosOf(a)
					}
				}
			}
			check(jobsOps, is("time"), "the job table is written without the time index")
			if op == "Put" {
				check(timeOps, is("jobs"), "the time index is written without the job table")
			}
			if bad != "" {
				r.violation("TX-SIBLING", key, w.Pos(f.Pos()), bad+": the two buckets diverge (stale TId, orphan time entries, jobs that fire after Delete)")
			} else {
				r.ok("TX-SIBLING", key, w.Pos(f.Pos()), "both buckets are written on every path")
			}
		}
	}
}

func ruleTxAtomic(w *World, r *Report) {
	r.Rule("TX-ATOMIC", "in crolt no function decides in one bolt transaction (a flag set inside a View/Update closure) what it then does in a later, separate transaction: check-then-act must happen inside one Update, otherwise two concurrent Adds of one id both pass the existence check", 1)
	for _, fn := range w.Funcs {
		if isTestFile(w, fn) || w.RelPkg(fn) != "crolt" || fn.Parent() != nil {
			continue
		}
		var txs []ssa.Instruction
		allInstrs(fn, func(in ssa.Instruction) {
			if c := callOf(in); c != nil && isBoltTxRunner(c) {
				txs = append(txs, in)
			}
		})
		if len(txs) == 0 {
			continue
		}
		key := "fn=" + fname(fn)
		if len(txs) == 1 {
			r.ok("TX-ATOMIC", key, w.Pos(fn.Pos()), "a single transaction")
			continue
		}
		bad := ""
		for i, t1 := range txs {
			mc, ok := callOf(t1).Args[len(callOf(t1).Args)-1].(*ssa.MakeClosure)
			if !ok {
				continue
			}
			// slots written inside the closure (captured variables)
			written := map[ssa.Value]bool{}
			cf := mc.Fn.(*ssa.Function)
			allInstrs(cf, func(in ssa.Instruction) {
				if st, ok := in.(*ssa.Store); ok {
					if fv, ok := st.Addr.(*ssa.FreeVar); ok {
						for k, y := range cf.FreeVars {
							if y == fv && k < len(mc.Bindings) {
								written[mc.Bindings[k]] = true
							}
						}
					}
				}
			})
			if len(written) == 0 {
				continue
			}
			for _, t2 := range txs[i+1:] {
				if !reachable(fn, t1, t2) {
					continue
				}
				// a branch between t1 and t2 on a value loaded from a written slot
				x := between(fn, t1, t2, func(in ssa.Instruction) bool {
					ifi, ok := in.(*ssa.If)
					if !ok {
						return false
					}
					return dependsOn(ifi.Cond, func(v ssa.Value) bool {
						u, ok := v.(*ssa.UnOp)
						return ok && u.Op == token.MUL && written[u.X]
					})
				})
				if x != nil && bad == "" {
					bad = w.PosOf(x)
				}
			}
		}
		if bad != "" {
			r.violation("TX-ATOMIC", key, bad, "a decision taken from data read in one transaction controls a write made in a later transaction (check-then-act across transactions)")
		} else {
			r.ok("TX-ATOMIC", key, w.Pos(fn.Pos()), "no cross-transaction check-then-act")
		}
	}
}

func ruleKeyFixedWidth(w *World, r *Report) {
	r.Rule("KEY-FIXEDWIDTH", "a string that reaches a bolt key used for ordered scans or bytes.Compare (the time index of crolt) does not come from a variable-width time layout: time.RFC3339Nano drops trailing zeros of the fraction, so `...:05.5Z,...` sorts before `...:05Z,...` and a job can be picked up to a second early", 2)
	n := 0
	for _, fn := range w.Funcs {
		if isTestFile(w, fn) || w.RelPkg(fn) != "crolt" {
			continue
		}
		allInstrs(fn, func(in ssa.Instruction) {
			c, ok := in.(*ssa.Call)
			if !ok {
				return
			}
			o := calleeObj(c.Common())
			if o == nil || o.Name() != "Format" || recvNamed(o) == nil || recvNamed(o).Obj().Pkg().Path() != "time" {
				return
			}
			layout, ok := constString(c.Common().Args[len(c.Common().Args)-1])
			if !ok {
				return
			}
			// does the formatted string reach an ordered key?
			usedAsKey := flowsToOrderedKey(w, fn, c)
			if !usedAsKey {
				return
			}
			n++
			key := "fn=" + fname(fn) + " layout=" + layout
			if strings.Contains(layout, "999") {
				r.violation("KEY-FIXEDWIDTH", key, w.PosOf(in), "a variable-width time layout is used for a key that is ordered byte-wise")
			} else {
				r.ok("KEY-FIXEDWIDTH", key, w.PosOf(in), "fixed-width layout")
			}
		})
	}
	r.stat("KEY-FIXEDWIDTH.time_keys", n)
}

// flowsToOrderedKey: the value flows (forward, through concatenation / Sprintf / conversions, and into closures) into a
// bolt Put/Delete/Seek key or a bytes.Compare operand.
func flowsToOrderedKey(w *World, fn *ssa.Function, src ssa.Value) bool {
	found := false
	isSink := func(c *ssa.CallCommon, arg ssa.Value) bool {
		o := calleeObj(c)
		if o == nil {
			return false
		}
		if o.Pkg() != nil && o.Pkg().Path() == "bytes" && o.Name() == "Compare" {
			return true
		}
		n := recvNamed(o)
		if n != nil && n.Obj().Pkg() != nil && n.Obj().Pkg().Path() == boltPath {
			switch n.Obj().Name() + "." + o.Name() {
			case "Bucket.Put", "Bucket.Delete", "Cursor.Seek":
				return len(c.Args) > 1 && c.Args[1] == arg
			}
		}
		return false
	}
	withAnon(outermost(fn), func(f *ssa.Function) {
		allInstrs(f, func(in ssa.Instruction) {
			c := callOf(in)
			if c == nil || found {
				return
			}
			for _, a := range c.Args {
				if isSink(c, a) && dependsOnThroughClosures(a, func(v ssa.Value) bool { return v == src }) {
					found = true
				}
			}
		})
	})
	return found
}

var _ types.Type

func init() {
	spec := registry["C16"]
	if spec == nil {
		spec = &propertySpec{ID: "C16"}
		register(spec)
	}
}
