package main

// rules_durable.go: C06 (durability) — STORE-ERR, STORE-ACK, PERSIST-PREPARED, TXSCOPE, NS-ARG.

import (
	"go/types"
	"strings"

	"golang.org/x/tools/go/ssa"
)

func isStorageCall(w *World, c *ssa.CallCommon) (string, bool) {
	o := calleeObj(c)
	if o == nil {
		return "", false
	}
	st := w.Named("core", "Storage")
	if isIfaceMethodCall(c, st, o.Name()) && errorResultIndex(c.Signature()) >= 0 {
		return "Storage." + o.Name(), true
	}
	return "", false
}

// storeErrExemptions: call sites (function + callee) where dropping a storage-derived error is accepted, with the reason.
var storeErrExemptions = map[string]string{
	"STORE-ERR|fn=(*sys.System).ClearLocationStats call=(*sys.System).findLocation": "not a state-changing operation (resets statistics); the ignored error and the nil location that follows are decided under C13 (NIL-AFTER-ERR)",
}

func defaultErrHandlers(c *ssa.CallCommon) bool {
	if f := c.StaticCallee(); f != nil {
		switch f.Name() {
		case "throwJavascript", "protest", "Fatal", "Fatalf":
			return true
		}
	}
	return false
}

// runErrFlow checks every source call site inside the functions selected by scope.
func runErrFlow(w *World, r *Report, rule string, srcs *errSourceSet, scope func(fn *ssa.Function) bool, exempt map[string]string, cfg errflowCfg) {
	sites := 0
	cfg.carries = func(v ssa.Value) bool {
		return dependsOn(v, func(x ssa.Value) bool {
			c, ok := x.(*ssa.Call)
			if !ok {
				return false
			}
			_, is := srcs.sourceAt(c)
			return is
		})
	}
	for _, fn := range w.Funcs {
		if isTestFile(w, fn) || fn.Synthetic != "" || !scope(fn) {
			continue
		}
		counts := map[string]int{}
		allInstrs(fn, func(in ssa.Instruction) {
			ci, ok := in.(ssa.CallInstruction)
			if !ok {
				return
			}
			if svcSiteFilter != nil && !svcSiteFilter(in) {
				return
			}
			call, isCall := in.(*ssa.Call)
			var origin string
			if isCall {
				origin, ok = srcs.sourceAt(call)
			} else {
				// go / defer of a source: the result is discarded by construction
				cc := ci.Common()
				if errorResultIndex(cc.Signature()) < 0 {
					return
				}
				if d, ok2 := srcs.isSource(cc); ok2 {
					origin, ok = d, true
				} else if f := cc.StaticCallee(); f != nil && srcs.carries[f] != "" {
					origin, ok = srcs.carries[f], true
				} else {
					ok = false
				}
			}
			if !ok {
				return
			}
			sites++
			callee := calleeName(ci.Common())
			counts[callee]++
			key := "fn=" + fname(fn) + " call=" + callee
			if counts[callee] > 1 {
				key += "#" + itoa(counts[callee])
			}
			if reason, ok := exempt[rule+"|fn="+fname(fn)+" call="+callee]; ok {
				r.exempt(rule, key, w.PosOf(in), reason)
				return
			}
			if !isCall {
				r.violation(rule, key, w.PosOf(in), "the error of "+callee+" ("+origin+") is discarded by a go/defer statement")
				return
			}
			idx := errorResultIndex(call.Common().Signature())
			e := errResultOf(call, idx)
			if e == nil {
				r.violation(rule, key, w.PosOf(in), "the error result of "+callee+" ("+origin+") is discarded")
				return
			}
			drops := checkErrFlow(fn, call, e, cfg)
			if len(drops) == 0 {
				r.ok(rule, key, w.PosOf(in), "the error reaches the function's error result / result object on every path on which it is non-nil")
				return
			}
			d := drops[0]
			r.violation(rule, key, w.PosOf(in), "the error of "+callee+" ("+origin+") is dropped: the path ending at "+w.PosOf(d.At)+" "+d.How, blockPathString(w, d.Blocks)...)
		})
	}
	r.stat(rule+".source_call_sites", sites)
	r.stat(rule+".carrier_functions", len(srcs.carries))
}

func calleeName(c *ssa.CallCommon) string {
	if c.IsInvoke() {
		n := namedOf(c.Value.Type())
		if n != nil {
			return n.Obj().Name() + "." + c.Method.Name()
		}
		return c.Method.Name()
	}
	if f := c.StaticCallee(); f != nil {
		return fname(f)
	}
	return "func-value " + c.Value.Name()
}

// purge helpers: functions that consult checkExpiration and remove the item when it has expired.  The error they
// return is a *purge* error (the clean-up of an expired item failed), not the failure of the requested operation.
func purgeHelpers(w *World) map[*ssa.Function]bool {
	out := map[*ssa.Function]bool{}
	ce := w.Func("core", "checkExpiration")
	for _, fn := range w.Funcs {
		if isTestFile(w, fn) {
			continue
		}
		judges, removes := false, false
		allInstrs(fn, func(in ssa.Instruction) {
			c := callOf(in)
			if c == nil {
				return
			}
			if c.StaticCallee() == ce {
				judges = true
			}
			// ... and removes: a removal primitive of a state (rem / Rem), or a function it was handed
			if f := c.StaticCallee(); f != nil && (f.Name() == "rem" || f.Name() == "Rem") {
				removes = true
			}
			if c.IsInvoke() && c.Method.Name() == "Rem" {
				removes = true
			}
			if p, ok := c.Value.(*ssa.Parameter); ok && p.Parent() == fn {
				removes = true
			}
		})
		if judges && removes {
			out[fn] = true
		}
	}
	// wrappers: a function every Return of which hands back, result for result, what one call of a purge helper
	// returned (`return Expire(ctx, ..., s.rem)`): the two states' expire methods after the helper was generalised.
	for changed := true; changed; {
		changed = false
		for _, fn := range w.Funcs {
			if out[fn] || isTestFile(w, fn) || fn.Signature.Results().Len() < 2 {
				continue
			}
			rets, all := 0, true
			allInstrs(fn, func(in ssa.Instruction) {
				ret, ok := in.(*ssa.Return)
				if !ok {
					return
				}
				rets++
				var call *ssa.Call
				for i, rv := range ret.Results {
					ex, ok := resolveSpill(rv).(*ssa.Extract)
					if !ok || ex.Index != i {
						all = false
						return
					}
					c, ok := ex.Tuple.(*ssa.Call)
					if !ok || (call != nil && c != call) || c.Common().StaticCallee() == nil || !(out[c.Common().StaticCallee()] || c.Common().StaticCallee() == ce) {
						all = false
						return
					}
					call = c
				}
			})
			wrapsHelper := false
			allInstrs(fn, func(in ssa.Instruction) {
				if c := callOf(in); c != nil && c.StaticCallee() != nil && out[c.StaticCallee()] {
					wrapsHelper = true
				}
			})
			if rets > 0 && all && wrapsHelper {
				out[fn] = true
				changed = true
			}
		}
	}
	if len(out) < 1 {
		undecided("STORE-ERR: expected at least one function that calls core.checkExpiration (the purge helpers), found %d", len(out))
	}
	return out
}

var storageMutatorNames = map[string]bool{"Add": true, "Remove": true, "Clear": true, "Delete": true, "Load": true}

func ruleStoreErr(w *World, r *Report) {
	r.Rule("STORE-ERR", "error discipline: the error of every core.Storage call (Load/Add/Remove/Clear/Delete), and of every function whose error result can derive from one, reaches the caller's error result (or a result object / handler) on every path on which it is non-nil, inside the state implementations, Location and System; an overwritten, shadowed or only-logged error is a violation.  Errors of the purge helpers (functions built on checkExpiration, which remove an expired item met on a read path) are cut off: a failed clean-up is not the failure of the requested operation; the sites that drop them are listed as information", 20)
	purge := purgeHelpers(w)
	isSrc := func(c *ssa.CallCommon) (string, bool) {
		d, ok := isStorageCall(w, c)
		if !ok {
			return "", false
		}
		if !storageMutatorNames[calleeObj(c).Name()] {
			return "", false
		}
		return d, true
	}
	all := newErrSources(w, isSrc)
	cut := newErrSourcesCut(w, isSrc, purge)
	scope := func(fn *ssa.Function) bool {
		p := w.RelPkg(fn)
		return (p == "core" || p == "sys") && !purge[fn]
	}
	runErrFlow(w, r, "STORE-ERR", cut, scope, storeErrExemptions, errflowCfg{handler: defaultErrHandlers, allowClassify: true, successOnly: true})
	// information: sites that see only purge errors
	n := 0
	for _, fn := range w.Funcs {
		if isTestFile(w, fn) || !scope(fn) {
			continue
		}
		allInstrs(fn, func(in ssa.Instruction) {
			call, ok := in.(*ssa.Call)
			if !ok {
				return
			}
			if _, isAll := all.sourceAt(call); !isAll {
				return
			}
			if _, isCut := cut.sourceAt(call); isCut {
				return
			}
			n++
		})
	}
	r.stat("STORE-ERR.purge_only_call_sites", n)
}

func init() {
	register(&propertySpec{
		ID:      "C06",
		Explain: "Static error-flow, must-pass-through and provenance rules for the write-through path between the in-memory state and core.Storage.",
		Rules:   []ruleFn{ruleStoreErr, ruleStoreAck, rulePersistPrepared("C06"), ruleNsArg, ruleTxScope("storage/bolt"), ruleLoadAll, ruleLoadFresh, ruleRemOrder, ruleBoltErr, ruleParentsValue("C06"), ruleStoreBeforeMem("C06"), ruleRemStoreFirst("C06"), ruleHookBeforeStore("C06"), ruleFactIdxLast("C06"), ruleHooksBeforeLoad, ruleClearAck("C06"), ruleErrRedress("C06"), ruleIndexLoad("C06"), ruleFactMapOwner("C06")},
	})
}

var _ = strings.Contains
var _ types.Type

// ---- STORE-ACK ---------------------------------------------------------------------------------

// transitive "mutates storage with method m" inside one state type
func storageCallers(w *World, a *locAnchors, names map[string]bool) map[*ssa.Function]bool {
	out := map[*ssa.Function]bool{}
	var layer []*ssa.Function
	for _, fn := range w.Funcs {
		if _, ok := stateOwnerOf(a, fn); ok && !isTestFile(w, fn) {
			layer = append(layer, fn)
		}
	}
	st := w.Named("core", "Storage")
	for changed := true; changed; {
		changed = false
		for _, fn := range layer {
			if out[fn] {
				continue
			}
			owner, _ := stateOwnerOf(a, fn)
			allInstrs(fn, func(in ssa.Instruction) {
				c := callOf(in)
				if c == nil || out[fn] {
					return
				}
				if o := calleeObj(c); o != nil && names[o.Name()] && isIfaceMethodCall(c, st, o.Name()) {
					out[fn], changed = true, true
					return
				}
				if f := c.StaticCallee(); f != nil && out[f] {
					if o2, ok := stateOwnerOf(a, f); ok && o2 == owner {
						out[fn], changed = true, true
					}
				}
			})
		}
	}
	return out
}

func ruleStoreAck(w *World, r *Report) {
	r.Rule("STORE-ACK", "acknowledgement implies persistence: in every State implementation every success return of Add lies behind a Storage.Add (path-sensitive on nil tests of the returned error), and every removal of an id from the fact map (single delete or wholesale reset) has a Storage.Remove / Clear / Delete on the same path before it or before the function returns", 6)
	a := newLocAnchors(w)
	st := w.Named("core", "Storage")
	isStore := func(names ...string) func(ssa.Instruction) bool {
		set := map[string]bool{}
		for _, n := range names {
			set[n] = true
		}
		trans := storageCallers(w, a, set)
		return func(in ssa.Instruction) bool {
			if _, isDefer := in.(*ssa.Defer); isDefer {
				return false
			}
			c := callOf(in)
			if c == nil {
				return false
			}
			if o := calleeObj(c); o != nil && set[o.Name()] && isIfaceMethodCall(c, st, o.Name()) {
				return true
			}
			if f := c.StaticCallee(); f != nil && trans[f] {
				return true
			}
			return false
		}
	}
	isAdd := isStore("Add")
	isRem := isStore("Remove", "Clear", "Delete")
	var impls []string
	for n := range a.stateImp {
		impls = append(impls, n.Obj().Name())
	}
	sortStrings(impls)
	for _, name := range impls {
		add := w.Method("core", name, "Add")
		key := "fn=" + fname(add) + " success-return"
		if hit, path := reachPSA(add, nil, isSuccessReturn, isAdd, nil); hit != nil {
			r.violation("STORE-ACK", key, w.PosOf(hit), "Add can return success on a path that never called Storage.Add", blockPathString(w, path)...)
		} else {
			r.ok("STORE-ACK", key, w.Pos(add.Pos()), "every success return lies behind Storage.Add")
		}
	}
	// removals
	factField := map[string]string{"core.IndexedState": "IdToFact", "core.LinearState": "Facts"}
	for _, fn := range w.Funcs {
		owner, ok := stateOwnerOf(a, fn)
		if !ok || isTestFile(w, fn) || factField[owner] == "" {
			continue
		}
		// reset helpers: same-type functions that directly store the fact-map field
		n := 0
		_, deleters := factMapHelpers(w, a, owner)
		if _, isHelper := deleters[fn]; isHelper {
			continue // `drop(id)`: only forgets; accounted for where it is called
		}
		allInstrs(fn, func(in ssa.Instruction) {
			isRemoval := false
			if c := callOf(in); c != nil {
				if b, ok := c.Value.(*ssa.Builtin); ok && b.Name() == "delete" && len(c.Args) > 0 && isFieldLoad(c.Args[0], owner, factField[owner]) {
					isRemoval = true
				}
				if f := c.StaticCallee(); f != nil {
					if _, isHelper := deleters[f]; isHelper {
						isRemoval = true
					}
				}
				if f := c.StaticCallee(); f != nil && f != fn && len(c.Args) > 0 && !isFreshAt(c.Args[0], in) {
					if o2, ok := stateOwnerOf(a, f); ok && o2 == owner && directlyResets(f, owner, factField[owner]) {
						isRemoval = true
					}
				}
			}
			if st, ok := storesToField(in, owner, factField[owner]); ok && !isFreshAt(addrBase(st.Addr), in) {
				// a wholesale reset in a function that is itself only a reset helper is accounted for at its callers
				if !isResetHelperOnly(w, a, fn) {
					isRemoval = true
				}
			}
			if !isRemoval {
				return
			}
			if fn.Name() == "Load" {
				return // Load replaces an empty map while reading from storage: nothing is removed
			}
			n++
			key := "fn=" + fname(fn) + " removal#" + itoa(n)
			before, _ := reach(fn, nil, func(x ssa.Instruction) bool { return x == in }, isRem, nil)
			after, path := reach(fn, in, isExit, isRem, nil)
			if before != nil && after != nil {
				r.violation("STORE-ACK", key, w.PosOf(in), "facts leave memory on a path with no Storage.Remove/Clear/Delete before the removal or before the function returns", blockPathString(w, path)...)
			} else {
				r.ok("STORE-ACK", key, w.PosOf(in), "removal from memory is paired with the storage removal on every path")
			}
		})
	}
}

// factMapHelpers: methods of a state that only keep the fact map (and counters next to it) — no storage call, no hook —
// and set, or delete, the entry under one of their parameters: `put(id, fact)`, `drop(id)`.  What they do is accounted
// for where they are called; the map gives the index (in the call's arguments) of the key.
func factMapHelpers(w *World, a *locAnchors, owner string) (setters, deleters map[*ssa.Function]int) {
	setters, deleters = map[*ssa.Function]int{}, map[*ssa.Function]int{}
	ff := stateFactField[owner]
	if ff == "" {
		return
	}
	for _, fn := range w.Funcs {
		o, ok := stateOwnerOf(a, fn)
		if !ok || o != owner || isTestFile(w, fn) || fn.Signature.Recv() == nil || len(fn.Blocks) == 0 {
			continue
		}
		pure := true
		allInstrs(fn, func(in ssa.Instruction) {
			c := callOf(in)
			if c == nil {
				return
			}
			if _, isSt := isStorageCall(w, c); isSt {
				pure = false
			}
			if c.IsInvoke() {
				pure = false
			}
			if f := c.StaticCallee(); f != nil && f.Signature.Recv() != nil && w.IsRulio(f) {
				if _, isState := stateOwnerOf(a, f); isState {
					pure = false // calls back into the state: not a leaf helper
				}
			}
		})
		if !pure {
			continue
		}
		paramIdx := func(v ssa.Value) int {
			v = resolveSpill(v)
			for i, p := range fn.Params {
				if v == ssa.Value(p) {
					return i
				}
			}
			return -1
		}
		allInstrs(fn, func(in ssa.Instruction) {
			if mu, isMU := in.(*ssa.MapUpdate); isMU && isFieldLoad(mu.Map, owner, ff) {
				if i := paramIdx(mu.Key); i >= 0 {
					setters[fn] = i
				}
			}
			if c, isD := isBuiltinCall(in, "delete"); isD && len(c.Call.Args) == 2 && isFieldLoad(c.Call.Args[0], owner, ff) {
				if i := paramIdx(c.Call.Args[1]); i >= 0 {
					deleters[fn] = i
				}
			}
		})
	}
	return
}

// FACTMAP-OWNER (C06, C08): once a helper keeps something in step with the fact map, every write of the map goes through it.
func ruleFactMapOwner(prop string) ruleFn {
	return func(w *World, r *Report) {
		r.Rule("FACTMAP-OWNER", "where a state has a helper that sets or deletes an entry of the fact map (or replaces the map) and in the same breath writes another field of the state — a count of the facts with a `deleteWith`, a secondary index — that field is only right as long as every write of the fact map goes through such a helper.  No other function of the state then writes the fact map directly: a Load that fills the map itself leaves the count at zero for a reloaded location, and whatever is decided by the count (`no dependents: skip the cascade`) is decided differently after a restart", 0)
		a := newLocAnchors(w)
		for n := range a.stateImp {
			owner := typeKey(n)
			ff := stateFactField[owner]
			if ff == "" {
				continue
			}
			setters, deleters := factMapHelpers(w, a, owner)
			keeps := map[*ssa.Function]string{}
			consider := func(fn *ssa.Function) {
				allInstrs(fn, func(in ssa.Instruction) {
					st, isS := in.(*ssa.Store)
					if !isS {
						return
					}
					fn2, f, _, ok := fieldOf(st.Addr)
					if ok && typeKey(fn2) == owner && f != ff {
						keeps[fn] = f
					}
				})
			}
			for fn := range setters {
				consider(fn)
			}
			for fn := range deleters {
				consider(fn)
			}
			key := "type=" + owner
			if len(keeps) == 0 {
				r.ok("FACTMAP-OWNER", key, w.Pos(n.Obj().Pos()), "no helper keeps a field in step with the fact map: nothing to bypass")
				continue
			}
			var kept string
			for _, f := range keeps {
				kept = f
			}
			// helpers that replace the map and reset a kept field count as such helpers, too
			resetters := map[*ssa.Function]bool{}
			for _, fn := range w.Funcs {
				if o, ok := stateOwnerOf(a, fn); !ok || o != owner || isTestFile(w, fn) {
					continue
				}
				resetsMap, resetsKept := false, false
				allInstrs(fn, func(in ssa.Instruction) {
					if _, ok := storesToField(in, owner, ff); ok {
						resetsMap = true
					}
					for _, f := range keeps {
						if _, ok := storesToField(in, owner, f); ok {
							resetsKept = true
						}
					}
				})
				if resetsMap && resetsKept {
					resetters[fn] = true
				}
			}
			bad := 0
			for _, fn := range w.Funcs {
				if o, ok := stateOwnerOf(a, fn); !ok || o != owner || isTestFile(w, fn) {
					continue
				}
				if _, is := keeps[fn]; is || resetters[fn] {
					continue
				}
				allInstrs(fn, func(in ssa.Instruction) {
					direct := writesThroughField(in, owner, ff)
					if _, ok := storesToField(in, owner, ff); ok && !isFreshAt(addrBase(in.(*ssa.Store).Addr), in) {
						direct = true
					}
					if direct {
						bad++
						r.violation("FACTMAP-OWNER", key+" fn="+fname(fn), w.PosOf(in), "the fact map is written here directly, past the helper that keeps `"+kept+"` in step with it: what is decided by `"+kept+"` is wrong from here on (until something else happens to correct it)")
					}
				})
			}
			if bad == 0 {
				r.ok("FACTMAP-OWNER", key, w.Pos(n.Obj().Pos()), "every write of the fact map goes through the helpers that keep `"+kept+"`")
			}
		}
	}
}

func addrBase(addr ssa.Value) ssa.Value {
	if fa, ok := addr.(*ssa.FieldAddr); ok {
		return fa.X
	}
	return addr
}

func directlyResets(fn *ssa.Function, owner, field string) bool {
	res := false
	if fn.Blocks == nil {
		return false
	}
	allInstrs(fn, func(in ssa.Instruction) {
		if _, ok := storesToField(in, owner, field); ok {
			res = true
		}
	})
	return res
}

// isResetHelperOnly: fn directly resets the map and contains no storage call at all (e.g. init).
func isResetHelperOnly(w *World, a *locAnchors, fn *ssa.Function) bool {
	has := false
	allInstrs(fn, func(in ssa.Instruction) {
		if c := callOf(in); c != nil {
			if _, ok := isStorageCall(w, c); ok {
				has = true
			}
		}
	})
	return !has && fn.Name() != "Clear" && fn.Name() != "Delete"
}

func sortStrings(s []string) {
	for i := 1; i < len(s); i++ {
		for j := i; j > 0 && s[j] < s[j-1]; j-- {
			s[j], s[j-1] = s[j-1], s[j]
		}
	}
}

// ---- PERSIST-PREPARED ----------------------------------------------------------------------------

func rulePersistPrepared(prop string) ruleFn {
	return func(w *World, r *Report) {
		r.Rule("PERSIST-PREPARED", "what is persisted is what is kept: in every State implementation the bytes handed to Storage.Add are marshalled from the *prepared* fact (the result of PrepareFact: canonical absolute `expires`, no `ttl`, injected id), i.e. from the same value that is stored in the fact map, not from the caller's raw map", 2)
		a := newLocAnchors(w)
		st := w.Named("core", "Storage")
		pf := w.Func("core", "PrepareFact")
		// functions whose result derives from PrepareFact's second result
		isPrepared := func(v ssa.Value) bool {
			ex, ok := v.(*ssa.Extract)
			if !ok {
				return false
			}
			c, ok := ex.Tuple.(*ssa.Call)
			if !ok {
				return false
			}
			f := c.Common().StaticCallee()
			if f == pf && ex.Index == 1 {
				return true
			}
			// a same-package helper that returns the prepared fact
			if f != nil && f.Blocks != nil && w.IsRulio(f) && ex.Index < f.Signature.Results().Len() {
				res := false
				allInstrs(f, func(in ssa.Instruction) {
					if ret, ok := in.(*ssa.Return); ok && ex.Index < len(ret.Results) {
						if dependsOn(ret.Results[ex.Index], func(x ssa.Value) bool {
							e2, ok := x.(*ssa.Extract)
							if !ok || e2.Index != 1 {
								return false
							}
							c2, ok := e2.Tuple.(*ssa.Call)
							return ok && c2.Common().StaticCallee() == pf
						}) {
							res = true
						}
					}
				})
				return res
			}
			return false
		}
		n := 0
		for _, fn := range w.Funcs {
			if _, ok := stateOwnerOf(a, fn); !ok || isTestFile(w, fn) {
				continue
			}
			allInstrs(fn, func(in ssa.Instruction) {
				c := callOf(in)
				if c == nil {
					return
				}
				o := calleeObj(c)
				if o == nil || o.Name() != "Add" || !isIfaceMethodCall(c, st, "Add") {
					return
				}
				n++
				key := "fn=" + fname(fn) + " Storage.Add"
				// the pair argument: last arg; its V field must come from json.Marshal(prepared)
				pair := c.Args[len(c.Args)-1]
				var marshalArgs []ssa.Value
				dependsOn(pair, func(v ssa.Value) bool {
					if call, ok := v.(*ssa.Call); ok {
						if f := call.Common().StaticCallee(); f != nil && f.Pkg != nil && f.Pkg.Pkg.Path() == "encoding/json" && f.Name() == "Marshal" {
							marshalArgs = append(marshalArgs, call.Common().Args[0])
						}
					}
					return false
				})
				// also follow stores into the pair's alloc
				if len(marshalArgs) == 0 {
					marshalArgs = marshalArgsInto(pair)
				}
				if len(marshalArgs) == 0 {
					r.violation("PERSIST-PREPARED", key, w.PosOf(in), "cannot find the json.Marshal that produces the stored bytes (shape changed)")
					return
				}
				okAll := true
				for _, ma := range marshalArgs {
					if !dependsOn(ma, isPrepared) {
						okAll = false
					}
				}
				if okAll {
					r.ok("PERSIST-PREPARED", key, w.PosOf(in), "the stored bytes are marshalled from the prepared fact")
				} else {
					r.violation("PERSIST-PREPARED", key, w.PosOf(in), "the stored bytes are marshalled from the caller's raw map, not from the prepared fact kept in memory: a `ttl` restarts (or is lost) on reload and the stored record differs from the live one")
				}
			})
		}
		r.stat("PERSIST-PREPARED.storage_add_sites", n)
	}
}

// marshalArgsInto: v is (a pointer to) a locally built struct; find json.Marshal calls whose result is stored into its fields.
func marshalArgsInto(v ssa.Value) []ssa.Value {
	var out []ssa.Value
	root := v
	if a, ok := root.(*ssa.Alloc); ok {
		for _, ref := range *a.Referrers() {
			fa, ok := ref.(*ssa.FieldAddr)
			if !ok {
				continue
			}
			for _, r2 := range *fa.Referrers() {
				st, ok := r2.(*ssa.Store)
				if !ok || st.Addr != fa {
					continue
				}
				dependsOn(st.Val, func(x ssa.Value) bool {
					if call, ok := x.(*ssa.Call); ok {
						if f := call.Common().StaticCallee(); f != nil && f.Pkg != nil && f.Pkg.Pkg.Path() == "encoding/json" && f.Name() == "Marshal" {
							out = append(out, call.Common().Args[0])
						}
					}
					return false
				})
			}
		}
	}
	return out
}

// ---- NS-ARG -----------------------------------------------------------------------------------

func ruleNsArg(w *World, r *Report) {
	r.Rule("NS-ARG", "every core.Storage call made by a State implementation passes that state's own Name as the location (namespace) argument", 10)
	a := newLocAnchors(w)
	st := w.Named("core", "Storage")
	counts := map[string]int{}
	for _, fn := range w.Funcs {
		owner, ok := stateOwnerOf(a, fn)
		if !ok || isTestFile(w, fn) {
			continue
		}
		allInstrs(fn, func(in ssa.Instruction) {
			c := callOf(in)
			if c == nil {
				return
			}
			o := calleeObj(c)
			if o == nil || !isIfaceMethodCall(c, st, o.Name()) {
				return
			}
			sig := c.Signature()
			// find the string parameter (location)
			idx := -1
			for i := 0; i < sig.Params().Len(); i++ {
				if b, ok := sig.Params().At(i).Type().Underlying().(*types.Basic); ok && b.Kind() == types.String {
					idx = i
					break
				}
			}
			if idx < 0 {
				return
			}
			args := c.Args
			if !c.IsInvoke() {
				args = args[1:]
			}
			counts[fname(fn)+"."+o.Name()]++
			key := "fn=" + fname(fn) + " call=Storage." + o.Name()
			if k := counts[fname(fn)+"."+o.Name()]; k > 1 {
				key += "#" + itoa(k)
			}
			if idx < len(args) && isFieldLoad(args[idx], owner, "Name") {
				r.ok("NS-ARG", key, w.PosOf(in), "namespace argument is the receiver's Name")
			} else {
				r.violation("NS-ARG", key, w.PosOf(in), "the storage namespace is not this state's own Name: records of one location can land in (or be removed from) another")
			}
		})
	}
}
