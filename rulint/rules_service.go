package main

// rules_service.go: C18 — the service layer (SVC-ERR, PARAM-VALUE, PARAM-AGREE, HTTP-400, URI-DEFAULT).

import (
	"go/token"
	"strings"

	"golang.org/x/tools/go/ssa"
)

var svcGetters = map[string]bool{"getMapParam": true, "getBoolParam": true, "GetStringParam": true}

func isSvcGetter(c *ssa.CallCommon) bool {
	f := c.StaticCallee()
	return f != nil && f.Pkg != nil && f.Pkg.Pkg.Path() == modPath+"/service" && svcGetters[f.Name()]
}

func isSystemMethod(c *ssa.CallCommon) bool {
	o := calleeObj(c)
	n := recvNamed(o)
	return n != nil && n.Obj().Name() == "System" && n.Obj().Pkg() != nil && n.Obj().Pkg().Path() == modPath+"/sys"
}

var svcErrExemptions = map[string]string{}

func ruleSvcErr(w *World, r *Report) {
	r.Rule("SVC-ERR", "in Service.ProcessRequest the error of every parameter getter, every System call, every recursive ProcessRequest and every json.Marshal reaches ProcessRequest's error result on every path on which it is non-nil (path-sensitive; returning another, provably non-nil error is accepted): missing or ill-typed parameters and failing operations produce an error response, never a success", 60)
	pr := w.Method("service", "Service", "ProcessRequest")
	isSrc := func(c *ssa.CallCommon) (string, bool) {
		if errorResultIndex(c.Signature()) < 0 {
			return "", false
		}
		if isSvcGetter(c) {
			return "getter " + c.StaticCallee().Name(), true
		}
		if isSystemMethod(c) {
			return "System." + calleeObj(c).Name(), true
		}
		if c.StaticCallee() == pr {
			return "recursive ProcessRequest", true
		}
		if f := c.StaticCallee(); f != nil && f.Pkg != nil && f.Pkg.Pkg.Path() == "encoding/json" && f.Name() == "Marshal" {
			return "json.Marshal", true
		}
		return "", false
	}
	// only the /api/loc/* cases (the property's scope): blocks dominated by the body of such a case
	var bodies []*ssa.BasicBlock
	for _, b := range pr.Blocks {
		if len(b.Instrs) == 0 {
			continue
		}
		ifi, ok := b.Instrs[len(b.Instrs)-1].(*ssa.If)
		if !ok {
			continue
		}
		cmp, ok := ifi.Cond.(*ssa.BinOp)
		if !ok || cmp.Op != token.EQL {
			continue
		}
		if cs, ok := constString(cmp.Y); ok && strings.HasPrefix(cs, "/api/loc/") {
			bodies = append(bodies, b.Succs[0])
		}
	}
	if len(bodies) < 15 {
		undecided("SVC-ERR: found only %d /api/loc/* cases in ProcessRequest", len(bodies))
	}
	inLoc := func(in ssa.Instruction) bool {
		for _, body := range bodies {
			if body.Dominates(in.Block()) {
				return true
			}
		}
		return false
	}
	isSrcLoc := func(c *ssa.CallCommon) (string, bool) { return isSrc(c) }
	srcs := &errSourceSet{w: w, isSource: isSrcLoc, carries: map[*ssa.Function]string{}}
	scope := func(fn *ssa.Function) bool { return fn == pr }
	svcSiteFilter = inLoc
	defer func() { svcSiteFilter = nil }()
	runErrFlow(w, r, "SVC-ERR", srcs, scope, svcErrExemptions, errflowCfg{handler: defaultErrHandlers, allowClassify: true, successOnly: true})
	r.stat("SVC-ERR.api_loc_cases", len(bodies))
}

// svcSiteFilter restricts runErrFlow to some call sites (set only while SVC-ERR runs).
var svcSiteFilter func(in ssa.Instruction) bool

// PARAM-VALUE: the value handed to the System is the getter's value result, not its "given" flag.
func ruleParamValue(w *World, r *Report) {
	r.Rule("PARAM-VALUE", "no argument of a System call in ProcessRequest is computed from the `given` flag (second result) of a parameter getter: an explicit `false` must not be read as `parameter present`", 20)
	pr := w.Method("service", "Service", "ProcessRequest")
	n := 0
	counts := map[string]int{}
	allInstrs(pr, func(in ssa.Instruction) {
		c := callOf(in)
		if c == nil || !isSystemMethod(c) {
			return
		}
		n++
		name := calleeObj(c).Name()
		counts[name]++
		key := "call=System." + name
		if counts[name] > 1 {
			key += "#" + itoa(counts[name])
		}
		bad := false
		for _, a := range c.Args[1:] {
			if dependsOn(a, func(v ssa.Value) bool {
				ex, ok := v.(*ssa.Extract)
				if !ok || ex.Index != 1 {
					return false
				}
				call, ok := ex.Tuple.(*ssa.Call)
				return ok && isSvcGetter(call.Common())
			}) {
				bad = true
			}
		}
		if bad {
			r.violation("PARAM-VALUE", key, w.PosOf(in), "an argument of this System call derives from a getter's `given` flag instead of the parameter's value")
		} else {
			r.ok("PARAM-VALUE", key, w.PosOf(in), "arguments derive from parameter values")
		}
	})
	r.stat("PARAM-VALUE.system_calls", n)
}

// PARAM-AGREE: the decoder's type table and the getters agree.
func ruleParamAgree(w *World, r *Report) {
	r.Rule("PARAM-AGREE", "writer/reader agreement: every parameter read with getMapParam is declared `json` in service.parameterTypes (so that query-string and form encodings decode it to a map, like a JSON body does), and no parameter read with GetStringParam / getBoolParam is declared with a non-string type", 5)
	// the table from the package initialiser
	table := map[string]string{}
	sp := w.SSA["service"]
	if sp == nil || sp.Var("parameterTypes") == nil {
		undecided("PARAM-AGREE: service.parameterTypes not found")
	}
	initFn := sp.Func("init")
	gl := sp.Var("parameterTypes")
	allInstrs(initFn, func(in ssa.Instruction) {
		mu, ok := in.(*ssa.MapUpdate)
		if !ok {
			return
		}
		// the map being built is stored into the global
		stored := false
		if mm, ok := mu.Map.(*ssa.MakeMap); ok && mm.Referrers() != nil {
			for _, ref := range *mm.Referrers() {
				if st, ok := ref.(*ssa.Store); ok && st.Addr == ssa.Value(gl) {
					stored = true
				}
			}
		}
		if !stored {
			return
		}
		k, ok1 := constKey(mu.Key)
		v, ok2 := constKey(mu.Value)
		if ok1 && ok2 {
			table[k] = v
		}
	})
	if len(table) < 3 {
		undecided("PARAM-AGREE: could not read service.parameterTypes from the package initialiser (%d entries)", len(table))
	}
	pr := w.Method("service", "Service", "ProcessRequest")
	seen := map[string]bool{}
	withAnon(pr, func(fn *ssa.Function) {
		allInstrs(fn, func(in ssa.Instruction) {
			c := callOf(in)
			if c == nil || !isSvcGetter(c) || len(c.Args) < 2 {
				return
			}
			if !inLocCase(pr, in) {
				return // /api/sys/* operator endpoints are outside the property's scope
			}
			name, ok := constString(c.Args[1])
			if !ok {
				return
			}
			getter := c.StaticCallee().Name()
			key := "param=" + name + " getter=" + getter
			if seen[key] {
				return
			}
			seen[key] = true
			typ := table[name]
			switch getter {
			case "getMapParam":
				if typ == "json" {
					r.ok("PARAM-AGREE", key, w.PosOf(in), "declared json")
				} else {
					r.violation("PARAM-AGREE", key, w.PosOf(in), "read as a map but not declared `json` in parameterTypes: the query-string / form encodings deliver a string and the request fails or differs from the JSON encoding")
				}
			default:
				if typ == "" {
					r.ok("PARAM-AGREE", key, w.PosOf(in), "undeclared (decoded as a string)")
				} else {
					r.violation("PARAM-AGREE", key, w.PosOf(in), "read as a string/bool but declared `"+typ+"` in parameterTypes")
				}
			}
		})
	})
	r.stat("PARAM-AGREE.table_entries", len(table))
}

// HTTP-400 and URI-DEFAULT
func ruleHTTPErrors(w *World, r *Report) {
	r.Rule("HTTP-400", "in HTTPService.ServeHTTP the error of request decoding and of ProcessRequest reaches protest(), and protest() calls WriteHeader(400) before it writes the body", 3)
	r.Rule("URI-DEFAULT", "Service.ProcessRequest returns an error when no URI case matches (with every `uri == constant` edge deleted, no success return is reachable)", 1)
	sh := w.Method("service", "HTTPService", "ServeHTTP")
	pr := w.Method("service", "Service", "ProcessRequest")
	protest := w.Func("service", "protest")
	isSrc := func(c *ssa.CallCommon) (string, bool) {
		if errorResultIndex(c.Signature()) < 0 {
			return "", false
		}
		f := c.StaticCallee()
		if f == pr {
			return "ProcessRequest", true
		}
		if f != nil && f.Pkg != nil && f.Pkg.Pkg.Path() == modPath+"/service" && f.Name() == "GetHTTPRequest" {
			return "GetHTTPRequest", true
		}
		return "", false
	}
	srcs := &errSourceSet{w: w, isSource: isSrc, carries: map[*ssa.Function]string{}}
	runErrFlow(w, r, "HTTP-400", srcs, func(fn *ssa.Function) bool { return fn == sh }, nil, errflowCfg{
		handler:       func(c *ssa.CallCommon) bool { return c.StaticCallee() == protest },
		allowClassify: true, // `if redirect, is := err.(*Redirect); is` answers with a 301
	})
	// protest: WriteHeader(400) before Write
	var wh, wr []ssa.Instruction
	allInstrs(protest, func(in ssa.Instruction) {
		c := callOf(in)
		if c == nil || !c.IsInvoke() {
			return
		}
		switch c.Method.Name() {
		case "WriteHeader":
			if k, ok := c.Args[0].(*ssa.Const); ok && k.Int64() == 400 {
				wh = append(wh, in)
			}
		case "Write":
			wr = append(wr, in)
		}
	})
	key := "fn=" + fname(protest)
	if len(wh) == 0 {
		r.violation("HTTP-400", key, w.Pos(protest.Pos()), "protest no longer calls WriteHeader(400)")
	} else {
		isWH := func(in ssa.Instruction) bool {
			for _, x := range wh {
				if x == in {
					return true
				}
			}
			return false
		}
		bad := false
		for _, x := range wr {
			x := x
			if h, _ := reach(protest, nil, func(in ssa.Instruction) bool { return in == x }, isWH, nil); h != nil {
				bad = true
			}
		}
		if bad {
			r.violation("HTTP-400", key, w.Pos(protest.Pos()), "protest can write the body before the 400 status")
		} else {
			r.ok("HTTP-400", key, w.Pos(protest.Pos()), "WriteHeader(400) precedes every body write")
		}
	}
	// URI-DEFAULT
	type edge struct {
		b *ssa.BasicBlock
		i int
	}
	del := map[edge]bool{}
	ncase := 0
	for _, b := range pr.Blocks {
		if len(b.Instrs) == 0 {
			continue
		}
		ifi, ok := b.Instrs[len(b.Instrs)-1].(*ssa.If)
		if !ok {
			continue
		}
		cmp, ok := ifi.Cond.(*ssa.BinOp)
		if !ok || cmp.Op != token.EQL {
			continue
		}
		if s, ok := constString(cmp.Y); ok && len(s) > 0 && s[0] == '/' {
			del[edge{b, 0}] = true
			ncase++
		}
	}
	ef := func(from *ssa.BasicBlock, si int) bool { return !del[edge{from, si}] }
	if ncase < 20 {
		r.violation("URI-DEFAULT", "fn="+fname(pr), w.Pos(pr.Pos()), "cannot find the URI dispatch of ProcessRequest (shape changed)")
	} else if h, path := reachPSA(pr, nil, isSuccessReturn, nil, ef); h != nil {
		r.violation("URI-DEFAULT", "fn="+fname(pr), w.PosOf(h), "a request whose URI matches no case can return success", blockPathString(w, path)...)
	} else {
		r.ok("URI-DEFAULT", "fn="+fname(pr), w.Pos(pr.Pos()), "unknown URIs end in an error return ("+itoa(ncase)+" cases)")
	}
}

func init() {
	register(&propertySpec{
		ID:      "C18",
		Explain: "Static error-flow, provenance and table-agreement rules for the service layer. Does not decide equality of results with direct System calls, escaping, or URI normalisation (DWIMURI is value-level).",
		Rules:   []ruleFn{ruleKeysOwnCtx("C18"), ruleLimitRefuses, ruleSvcErr, ruleParamValue, ruleParamAgree, ruleHTTPErrors, ruleRespLast, ruleJSONQuote("C18", "service"), ruleParamPresence, ruleTypedNil("C18"), ruleFmtConst, ruleURIPathWins, ruleReqDecodeStrict},
	})
}

// inLocCase: in lies in the body of a `case "/api/loc/...":` of ProcessRequest.
func inLocCase(pr *ssa.Function, in ssa.Instruction) bool {
	if in.Parent() != pr {
		return false
	}
	for _, b := range pr.Blocks {
		if len(b.Instrs) == 0 {
			continue
		}
		ifi, ok := b.Instrs[len(b.Instrs)-1].(*ssa.If)
		if !ok {
			continue
		}
		cmp, ok := ifi.Cond.(*ssa.BinOp)
		if !ok || cmp.Op != token.EQL {
			continue
		}
		if cs, ok := constString(cmp.Y); ok && strings.HasPrefix(cs, "/api/loc/") && b.Succs[0].Dominates(in.Block()) {
			return true
		}
	}
	return false
}
