package main

// lockset.go: LOCKSET engine — guarded-by analysis.
//
// For every function (specialised on constant bool arguments) a forward must-hold data-flow over
// {lock -> mode} is computed; acquire/release are the resolved sync.(RW)Mutex methods and, through
// bottom-up summaries, every wrapper built on them (slock/sunlock ...).  A guarded-field access made
// without its lock becomes a *requirement* that each call site must satisfy or inherit; a
// requirement that escapes the owner type's methods (or reaches a goroutine root) is a violation.

import (
	"fmt"
	"go/token"
	"go/types"
	"sort"
	"strings"

	"golang.org/x/tools/go/ssa"
)

type lockMode int

const (
	modeNone lockMode = 0
	modeR    lockMode = 1
	modeW    lockMode = 2
)

func (m lockMode) String() string {
	switch m {
	case modeR:
		return "R"
	case modeW:
		return "W"
	}
	return "-"
}

type lockState map[string]lockMode

func (s lockState) clone() lockState {
	c := lockState{}
	for k, v := range s {
		c[k] = v
	}
	return c
}

func meet(a, b lockState) lockState {
	out := lockState{}
	for k, v := range a {
		if w, ok := b[k]; ok {
			if w < v {
				v = w
			}
			if v > 0 {
				out[k] = v
			}
		}
	}
	return out
}

func eqState(a, b lockState) bool {
	if len(a) != len(b) {
		return false
	}
	for k, v := range a {
		if b[k] != v {
			return false
		}
	}
	return true
}

// guard: field F of struct Owner is protected by lock Lock (a lock id).
type guardSpec struct {
	Owner  string // "core.IndexedState"
	Lock   string // lock id, e.g. "core.IndexedState.RWMutex"
	Fields map[string]bool
}

type lockReq struct {
	Lock   string
	Mode   lockMode
	Have   lockMode // what was held at the innermost site (for write-under-read)
	Field  string   // owner.field
	Access string   // "read" | "write"
	In     string   // function containing the access
	Where  string
	Chain  []string
	Final  bool   // cannot be satisfied by callers (goroutine root)
	GoRoot string // entry function of the goroutine (Final)
	Local  bool   // write under a read lock held at the access itself: no caller can repair it
}

func (q lockReq) ident() string {
	return q.Lock + "|" + q.Field + "|" + q.Access + "|" + q.In + "|" + q.Mode.String() + "|" + q.Have.String()
}

type lockSummary struct {
	Acq  lockState       // held at every return (not held at entry)
	Rel  map[string]bool // may be released relative to entry
	Reqs []lockReq
	// Takes: lock classes that may be acquired somewhere inside (transitively), with the call chain to the
	// primitive acquisition (LOCK-ORDER)
	Takes map[string][]string
}

// orderEdge: lock class To was acquired (possibly deep inside a callee) while From was certainly held.
type orderEdge struct {
	From, To string
	In       string   // function holding From
	Where    string   // position of the acquisition / call
	Chain    []string // call chain from In to the primitive acquisition
}

type locksetEngine struct {
	w       *World
	conduit map[*ssa.Function]bool
	guards  map[string]*guardSpec // owner -> spec (several specs per owner allowed via key owner+"#"+lock)
	byField map[string]*guardSpec // "owner.field" -> spec
	// functions whose boolean result is assumed false when it steers a branch (privilege idiom)
	assumeFalse func(c *ssa.CallCommon) bool
	memo        map[string]*lockSummary
	prev        map[string]*lockSummary // summaries of the previous round (used for recursive cycles)
	inprog      map[string]bool
	// instrumentation
	accesses   int
	lockOps    int
	fnAnalysed int
	// per-access log for inference mode
	log []string
	// deep mutators: method objects that mutate their receiver
	mutMemo map[*ssa.Function]int
	// accesses exempted because the base object is freshly allocated
	freshExempt int
	rounds      int
	// fields written through a pointer that is not freshly allocated (i.e. after construction)
	sharedWrite map[string]bool
	// every guarded access seen: "field|access|in" -> position
	seenAccess map[string]string
	// guarded package-level variables: "pkg.name" -> spec
	byGlobal map[string]*guardSpec
	// extra: treat an arbitrary instruction as an access to a pseudo-field that needs a lock
	// (e.g. "storage write" or "grant privilege" must happen under the state's write lock)
	extra func(fn *ssa.Function, ins ssa.Instruction) (fkey, lock, access string, ok bool)
	// LOCK-ORDER: "from->to" -> first witness
	order map[string]*orderEdge
	// LOCK-REENTRY: every call site at which a callee takes a lock class that is held at the call
	selfHeld    []selfEdge
	privSkipped []selfEdge // call sites under the privilege whose callee would take a held state lock
	priv        *privAnchors
	stateLocks  map[string]bool
}

type selfEdge struct {
	Lock  string
	Fn    *ssa.Function
	At    ssa.Instruction
	Chain []string
}

func (e *locksetEngine) addOrder(from, to string, fn *ssa.Function, at ssa.Instruction, chain []string) {
	if e.order == nil {
		e.order = map[string]*orderEdge{}
	}
	k := from + "->" + to
	if _, ok := e.order[k]; ok {
		return
	}
	e.order[k] = &orderEdge{From: from, To: to, In: fname(fn), Where: e.w.PosOf(at), Chain: chain}
}

func newLocksetEngine(w *World, guards []*guardSpec) *locksetEngine {
	e := &locksetEngine{w: w, guards: map[string]*guardSpec{}, byField: map[string]*guardSpec{}, memo: map[string]*lockSummary{}, prev: map[string]*lockSummary{}, inprog: map[string]bool{}, mutMemo: map[*ssa.Function]int{}, seenAccess: map[string]string{}, sharedWrite: map[string]bool{}, byGlobal: map[string]*guardSpec{}}
	for _, g := range guards {
		if g.Owner == "" {
			for f := range g.Fields {
				e.byGlobal[f] = g
			}
			continue
		}
		e.guards[g.Owner+"#"+g.Lock] = g
		for f := range g.Fields {
			e.byField[g.Owner+"."+f] = g
		}
	}
	e.assumeFalse = func(c *ssa.CallCommon) bool {
		return isMethodOf(calleeObj(c), modPath+"/core", "Context", "isPrivileged")
	}
	return e
}

func typeKey(n *types.Named) string {
	if n == nil || n.Obj().Pkg() == nil {
		return ""
	}
	p := strings.TrimPrefix(strings.TrimPrefix(n.Obj().Pkg().Path(), modPath), "/")
	if p == "" {
		p = "."
	}
	return p + "." + n.Obj().Name()
}

func isSyncMutex(t types.Type) bool {
	n := namedOf(t)
	return n != nil && n.Obj().Pkg() != nil && n.Obj().Pkg().Path() == "sync" && (n.Obj().Name() == "Mutex" || n.Obj().Name() == "RWMutex")
}

// lockIDOf decodes the address of a mutex into a lock id.
func (e *locksetEngine) lockIDOf(addr ssa.Value) string {
	switch x := addr.(type) {
	case *ssa.FieldAddr:
		if n, f, _, ok := fieldOf(x); ok {
			return typeKey(n) + "." + f
		}
	case *ssa.Global:
		p := ""
		if x.Pkg != nil {
			p = strings.TrimPrefix(strings.TrimPrefix(x.Pkg.Pkg.Path(), modPath), "/")
		}
		return p + "." + x.Name()
	case *ssa.Alloc:
		return "local:" + fname(x.Parent()) + ":" + x.Comment
	case *ssa.FreeVar:
		return "local:" + fname(outermost(x.Parent())) + ":" + x.Name()
	case *ssa.Parameter:
		return "param:" + x.Name()
	case *ssa.UnOp:
		if x.Op == token.MUL {
			return e.lockIDOf(x.X)
		}
	}
	return "unknown:" + addr.String()
}

// lockOp recognises a primitive mutex operation.
func (e *locksetEngine) lockOp(c *ssa.CallCommon) (id string, acquire bool, mode lockMode, ok bool) {
	f := c.StaticCallee()
	if f == nil || f.Pkg == nil || f.Pkg.Pkg.Path() != "sync" || f.Signature.Recv() == nil {
		return
	}
	if !isSyncMutex(f.Signature.Recv().Type()) || len(c.Args) == 0 {
		return
	}
	switch f.Name() {
	case "Lock":
		acquire, mode = true, modeW
	case "RLock":
		acquire, mode = true, modeR
	case "Unlock":
		acquire, mode = false, modeW
	case "RUnlock":
		acquire, mode = false, modeR
	default:
		return
	}
	return e.lockIDOf(c.Args[0]), acquire, mode, true
}

// specKey: specialisation of fn on constant bool arguments.
func specOf(c *ssa.CallCommon, callee *ssa.Function) string {
	if callee == nil {
		return ""
	}
	args := c.Args
	if c.IsInvoke() {
		// params exclude receiver for invoke; callee.Params include it
		args = append([]ssa.Value{c.Value}, c.Args...)
	}
	var sb strings.Builder
	for i, p := range callee.Params {
		if i >= len(args) {
			break
		}
		if b, ok := p.Type().Underlying().(*types.Basic); ok && b.Kind() == types.Bool {
			if v, ok := isConstBool(args[i]); ok {
				if v {
					sb.WriteString(fmt.Sprintf("%d=T;", i))
				} else {
					sb.WriteString(fmt.Sprintf("%d=F;", i))
				}
			}
		}
	}
	return sb.String()
}

func specValue(spec string, idx int) (bool, bool) {
	t := fmt.Sprintf("%d=T;", idx)
	f := fmt.Sprintf("%d=F;", idx)
	if strings.Contains(";"+spec, ";"+t) || strings.HasPrefix(spec, t) {
		return true, true
	}
	if strings.Contains(";"+spec, ";"+f) || strings.HasPrefix(spec, f) {
		return false, true
	}
	return false, false
}

// edge pruning under a specialisation: returns the allowed successor filter for fn.
func (e *locksetEngine) pruner(fn *ssa.Function, spec string) edgeFilter {
	type edge struct {
		b *ssa.BasicBlock
		i int
	}
	del := map[edge]bool{}
	for _, b := range fn.Blocks {
		if len(b.Instrs) == 0 {
			continue
		}
		ifi, ok := b.Instrs[len(b.Instrs)-1].(*ssa.If)
		if !ok {
			continue
		}
		ct, ok := decodeIf(ifi)
		if !ok || (ct.TrueWhen != "true" && ct.TrueWhen != "false") {
			continue
		}
		var val, known bool
		if p, ok := ct.V.(*ssa.Parameter); ok {
			for i, q := range fn.Params {
				if q == p {
					val, known = specValue(spec, i)
				}
			}
		} else if c, ok := ct.V.(*ssa.Call); ok && e.assumeFalse(c.Common()) {
			val, known = false, true
		}
		if !known {
			continue
		}
		// succ[0] is taken when cond true. cond true <=> (V == (TrueWhen=="true"))
		condTrue := val == (ct.TrueWhen == "true")
		if condTrue {
			del[edge{b, 1}] = true
		} else {
			del[edge{b, 0}] = true
		}
	}
	return func(from *ssa.BasicBlock, si int) bool { return !del[edge{from, si}] }
}

type flowState struct {
	held     lockState
	deferred map[string]bool // locks released by deferred calls at return
	deferAcq lockState
}

// analyze computes the summary of fn under spec.
func (e *locksetEngine) analyze(fn *ssa.Function, spec string) *lockSummary {
	key := fn.String() + "#" + spec
	if fn.Parent() != nil {
		key = fmt.Sprintf("%s@%d#%s", fn.String(), fn.Pos(), spec)
	}
	if s, ok := e.memo[key]; ok {
		return s
	}
	if e.inprog[key] {
		if p, ok := e.prev[key]; ok {
			return p
		}
		return &lockSummary{Acq: lockState{}, Rel: map[string]bool{}}
	}
	if fn.Blocks == nil {
		return &lockSummary{Acq: lockState{}, Rel: map[string]bool{}}
	}
	e.inprog[key] = true
	defer delete(e.inprog, key)
	e.fnAnalysed++

	ef := e.pruner(fn, spec)
	reachable := blocksReachable(fn, ef)

	in := map[*ssa.BasicBlock]*flowState{}
	in[fn.Blocks[0]] = &flowState{held: lockState{}, deferred: map[string]bool{}}
	work := []*ssa.BasicBlock{fn.Blocks[0]}
	inWork := map[*ssa.BasicBlock]bool{fn.Blocks[0]: true}

	var transfer func(b *ssa.BasicBlock, st *flowState, collect bool, out *lockSummary) *flowState
	transfer = func(b *ssa.BasicBlock, st0 *flowState, collect bool, out *lockSummary) *flowState {
		st := &flowState{held: st0.held.clone(), deferred: map[string]bool{}}
		for k := range st0.deferred {
			st.deferred[k] = true
		}
		for _, ins := range b.Instrs {
			switch x := ins.(type) {
			case *ssa.Defer:
				e.applyCall(fn, x, st, true, collect, out)
			case *ssa.Go:
				e.applyGo(fn, x, st, collect, out)
			case *ssa.Call:
				e.applyCall(fn, x, st, false, collect, out)
			case *ssa.RunDefers:
				for k := range st.deferred {
					delete(st.held, k)
				}
			}
			if collect {
				e.checkAccess(fn, ins, st, out)
			}
		}
		return st
	}

	for len(work) > 0 {
		b := work[0]
		work = work[1:]
		inWork[b] = false
		st := transfer(b, in[b], false, nil)
		for si, s := range b.Succs {
			if !ef(b, si) || !reachable[s] {
				continue
			}
			old, ok := in[s]
			if !ok {
				in[s] = &flowState{held: st.held.clone(), deferred: cloneSet(st.deferred)}
			} else {
				nh := meet(old.held, st.held)
				nd := unionSet(old.deferred, st.deferred)
				if eqState(nh, old.held) && len(nd) == len(old.deferred) {
					continue
				}
				in[s] = &flowState{held: nh, deferred: nd}
			}
			if !inWork[s] {
				inWork[s] = true
				work = append(work, s)
			}
		}
	}

	out := &lockSummary{Acq: nil, Rel: map[string]bool{}}
	for _, b := range fn.Blocks {
		if !reachable[b] || in[b] == nil {
			continue
		}
		st := transfer(b, in[b], true, out)
		if len(b.Instrs) > 0 {
			if _, isRet := b.Instrs[len(b.Instrs)-1].(*ssa.Return); isRet {
				if out.Acq == nil {
					out.Acq = st.held.clone()
				} else {
					out.Acq = meet(out.Acq, st.held)
				}
			}
		}
	}
	if out.Acq == nil {
		out.Acq = lockState{}
	}
	// dedupe reqs
	seen := map[string]bool{}
	var reqs []lockReq
	for _, q := range out.Reqs {
		id := q.ident() + fmt.Sprint(q.Final)
		if !seen[id] {
			seen[id] = true
			reqs = append(reqs, q)
		}
	}
	out.Reqs = reqs
	e.memo[key] = out
	return out
}

func cloneSet(m map[string]bool) map[string]bool {
	c := map[string]bool{}
	for k := range m {
		c[k] = true
	}
	return c
}
func unionSet(a, b map[string]bool) map[string]bool {
	c := cloneSet(a)
	for k := range b {
		c[k] = true
	}
	return c
}

// inside reports whether fn belongs to the module that owns lock: methods (and their closures) of
// the owner struct, or, for a package-level lock, functions of the declaring package.
func (e *locksetEngine) inside(fn *ssa.Function, lock string) bool {
	o := outermost(fn)
	i := strings.LastIndex(lock, ".")
	owner := lock[:i]
	if o.Signature.Recv() != nil {
		if typeKey(namedOf(o.Signature.Recv().Type())) == owner {
			return true
		}
	}
	// package-level lock: owner is just the package
	if !strings.Contains(owner, ".") {
		return e.w.RelPkg(o) == owner
	}
	// a conduit: a package-level function of the owner's package that calls a function it was handed (a generic
	// helper such as Expire(ctx, ..., rem func(...))): what the callback needs, the helper's caller has to hold
	if o.Signature.Recv() == nil && e.w.RelPkg(o) == owner[:strings.Index(owner, ".")] && e.callsParam(o) {
		return true
	}
	return false
}

// callsParam: fn calls one of its own function-typed parameters.
func (e *locksetEngine) callsParam(fn *ssa.Function) bool {
	if e.conduit == nil {
		e.conduit = map[*ssa.Function]bool{}
	}
	if v, ok := e.conduit[fn]; ok {
		return v
	}
	res := false
	allInstrs(fn, func(in ssa.Instruction) {
		if c := callOf(in); c != nil && !c.IsInvoke() {
			if p, ok := c.Value.(*ssa.Parameter); ok && p.Parent() == fn {
				res = true
			}
		}
	})
	e.conduit[fn] = res
	return res
}

func (e *locksetEngine) applyGo(fn *ssa.Function, g *ssa.Go, st *flowState, collect bool, out *lockSummary) {
	if !collect {
		return
	}
	for _, callee := range e.calleesOf(g) {
		sub := e.analyze(callee, specOf(g.Common(), callee))
		for _, q := range sub.Reqs {
			if q.Local {
				continue // reported at the accessing function
			}
			q2 := q
			q2.Chain = append([]string{fname(fn) + " go"}, q.Chain...)
			if !q2.Final {
				q2.GoRoot = fname(callee)
			}
			q2.Final = true
			out.Reqs = append(out.Reqs, q2)
		}
	}
}

func (e *locksetEngine) calleesOf(ci ssa.CallInstruction) []*ssa.Function {
	var out []*ssa.Function
	if f := ci.Common().StaticCallee(); f != nil {
		if f.Blocks != nil {
			out = append(out, f)
		}
		return out
	}
	for _, c := range e.w.Callees(ci) {
		// a method value (`s.rem` handed to a generic helper) is called through a synthetic bound-method wrapper: what
		// runs is the method
		if c.Synthetic != "" && c.Object() != nil {
			if tf, ok := c.Object().(*types.Func); ok {
				if real := e.w.Prog.FuncValue(tf); real != nil {
					c = real
				}
			}
		}
		if c.Blocks != nil && e.w.IsRulio(c) && !isTestFile(e.w, c) {
			out = append(out, c)
		}
	}
	return out
}

func isFreshBase(v ssa.Value) bool { return isFreshBaseD(v, 0) }

// allocRoot finds the allocation (or fresh-returning call) behind a fresh base value.
func allocRoot(v ssa.Value, depth int) ssa.Value {
	if depth > 6 {
		return nil
	}
	switch x := v.(type) {
	case *ssa.Alloc, *ssa.Call:
		return v
	case *ssa.Extract:
		return x
	case *ssa.UnOp:
		if x.Op == token.MUL {
			if a, ok := x.X.(*ssa.Alloc); ok {
				for _, ref := range *a.Referrers() {
					if s, ok := ref.(*ssa.Store); ok && s.Addr == a {
						return allocRoot(s.Val, depth+1)
					}
				}
			}
		}
	case *ssa.MakeInterface:
		return allocRoot(x.X, depth+1)
	case *ssa.ChangeType:
		return allocRoot(x.X, depth+1)
	}
	return nil
}

// isFreshAt: v is a freshly allocated object that has not been published (stored into another
// object, a map, a global, a channel, or passed as a non-receiver argument) on any path reaching `at`.
func isFreshAt(v ssa.Value, at ssa.Instruction) bool {
	if !isFreshBase(v) {
		return false
	}
	root := allocRoot(v, 0)
	if root == nil {
		return false
	}
	fn := at.Parent()
	var escapes []ssa.Instruction
	var visit func(val ssa.Value, depth int)
	seen := map[ssa.Value]bool{}
	visit = func(val ssa.Value, depth int) {
		if depth > 4 || seen[val] {
			return
		}
		seen[val] = true
		refs := val.Referrers()
		if refs == nil {
			return
		}
		for _, ref := range *refs {
			switch x := ref.(type) {
			case *ssa.Store:
				if x.Val == val {
					// stored somewhere: a local variable slot is fine (follow its loads), anything else publishes
					if a, ok := x.Addr.(*ssa.Alloc); ok && !a.Heap {
						visit(a, depth+1)
					} else if a, ok := x.Addr.(*ssa.Alloc); ok {
						visit(a, depth+1)
					} else {
						escapes = append(escapes, x)
					}
				}
			case *ssa.UnOp:
				if x.Op == token.MUL {
					if _, isPtrToPtr := val.(*ssa.Alloc); isPtrToPtr && val != root {
						visit(x, depth+1) // load of the variable slot: the pointer itself again
					}
				}
			case *ssa.MapUpdate:
				if x.Value == val || x.Key == val {
					escapes = append(escapes, x)
				}
			case *ssa.Send:
				if x.X == val {
					escapes = append(escapes, x)
				}
			case *ssa.MakeInterface:
				visit(x, depth+1)
			case *ssa.ChangeType:
				visit(x, depth+1)
			case *ssa.MakeClosure:
				escapes = append(escapes, x)
			case ssa.CallInstruction:
				c := x.Common()
				for i, a := range c.Args {
					if a != val {
						continue
					}
					isRecv := i == 0 && !c.IsInvoke() && c.StaticCallee() != nil && c.StaticCallee().Signature.Recv() != nil
					if !isRecv {
						escapes = append(escapes, x)
					}
				}
				if c.IsInvoke() && c.Value == val {
					// method call through an interface on the fresh object: receiver use
				}
				if _, isGo := x.(*ssa.Go); isGo {
					escapes = append(escapes, x)
				}
			}
		}
	}
	visit(root, 0)
	for _, e := range escapes {
		if e == at {
			continue
		}
		if e.Parent() != fn {
			return false
		}
		if hit, _ := reach(fn, e, func(in ssa.Instruction) bool { return in == at }, nil, nil); hit != nil {
			return false
		}
	}
	return true
}

var returnsFreshMemo = map[*ssa.Function]int{}

// returnsFresh: every value fn returns (result 0) is an object allocated inside fn (a copy / constructor).
func returnsFresh(fn *ssa.Function) bool {
	if fn == nil || fn.Blocks == nil {
		return false
	}
	if v, ok := returnsFreshMemo[fn]; ok {
		return v == 1
	}
	returnsFreshMemo[fn] = 2
	all, n := true, 0
	allInstrs(fn, func(in ssa.Instruction) {
		if r, ok := in.(*ssa.Return); ok && len(r.Results) > 0 {
			n++
			if !isFreshBaseD(r.Results[0], 1) {
				all = false
			}
		}
	})
	if all && n > 0 {
		returnsFreshMemo[fn] = 1
		return true
	}
	return false
}

func isFreshBaseD(v ssa.Value, depth int) bool {
	if depth > 6 {
		return false
	}
	switch x := v.(type) {
	case *ssa.Alloc:
		return true
	case *ssa.UnOp:
		if x.Op == token.MUL {
			if a, ok := x.X.(*ssa.Alloc); ok {
				// a local variable holding a pointer: fresh if every store into it is an Alloc
				all := true
				n := 0
				for _, ref := range *a.Referrers() {
					if s, ok := ref.(*ssa.Store); ok && s.Addr == a {
						n++
						if !isFreshBaseD(s.Val, depth+1) {
							all = false
						}
					}
				}
				return all && n > 0
			}
		}
	case *ssa.MakeInterface:
		return isFreshBaseD(x.X, depth+1)
	case *ssa.ChangeType:
		return isFreshBaseD(x.X, depth+1)
	case *ssa.Call:
		if f := x.Common().StaticCallee(); f != nil && f.Signature.Results().Len() >= 1 {
			return returnsFresh(f)
		}
	case *ssa.Extract:
		if c, ok := x.Tuple.(*ssa.Call); ok && x.Index == 0 {
			if f := c.Common().StaticCallee(); f != nil {
				return returnsFresh(f)
			}
		}
	}
	return false
}

func (e *locksetEngine) applyCall(fn *ssa.Function, ci ssa.CallInstruction, st *flowState, deferred bool, collect bool, out *lockSummary) {
	c := ci.Common()
	if id, acq, mode, ok := e.lockOp(c); ok {
		if collect {
			e.lockOps++
		}
		if deferred {
			if !acq {
				st.deferred[id] = true
			}
			return
		}
		if acq {
			if collect && out != nil {
				for h := range st.held {
					e.addOrder(h, id, fn, ci, []string{fname(fn)})
				}
				if out.Takes == nil {
					out.Takes = map[string][]string{}
				}
				if _, ok := out.Takes[id]; !ok {
					out.Takes[id] = []string{fname(fn)}
				}
			}
			st.held[id] = mode
		} else {
			if _, held := st.held[id]; held {
				delete(st.held, id)
			} else if out != nil {
				out.Rel[id] = true
			}
		}
		return
	}
	callees := e.calleesOf(ci)
	if len(callees) == 0 {
		return
	}
	var acq lockState
	rel := map[string]bool{}
	// fresh receiver: a constructor calling methods on the object it just allocated
	freshRecv := false
	if len(c.Args) > 0 && !c.IsInvoke() && isFreshAt(c.Args[0], ci) {
		freshRecv = true
	}
	for _, callee := range callees {
		if callee == fn {
			continue
		}
		sub := e.analyze(callee, specOf(c, callee))
		if acq == nil {
			acq = sub.Acq.clone()
		} else {
			acq = meet(acq, sub.Acq)
		}
		for k := range sub.Rel {
			rel[k] = true
		}
		if collect && out != nil && !deferred {
			privileged := e.privilegedAt(fn, ci)
			for m, chain := range sub.Takes {
				if privileged && e.isStateLock(m) {
					// under the context privilege the state's slock is a no-op: what the callee `takes` of the
					// state's own lock is not taken at all
					if _, held := st.held[m]; held {
						e.privSkipped = append(e.privSkipped, selfEdge{Lock: m, Fn: fn, At: ci, Chain: append([]string{fname(fn)}, chain...)})
					}
					continue
				}
				full := append([]string{fname(fn)}, chain...)
				for h := range st.held {
					if h == m && sub.Rel[m] {
						continue // the callee gives the lock up before it takes it again
					}
					if h == m {
						e.selfHeld = append(e.selfHeld, selfEdge{Lock: m, Fn: fn, At: ci, Chain: full})
					}
					e.addOrder(h, m, fn, ci, full)
				}
				if out.Takes == nil {
					out.Takes = map[string][]string{}
				}
				if _, ok := out.Takes[m]; !ok {
					out.Takes[m] = full
				}
			}
		}
		if collect && out != nil {
			for _, q := range sub.Reqs {
				if q.Final || q.Local {
					continue // reported at the goroutine start / at the accessing function
				}
				if st.held[q.Lock] >= q.Mode {
					continue
				}
				// requirements propagate only inside the owner's methods; at the boundary they are
				// reported (see findings) at the callee
				if !(e.inside(callee, q.Lock) && e.inside(fn, q.Lock)) {
					continue
				}
				if freshRecv && callee.Signature.Recv() != nil && e.inside(callee, q.Lock) {
					e.freshExempt++
					continue
				}
				q2 := q
				q2.Chain = append([]string{fname(fn)}, q.Chain...)
				if st.held[q.Lock] > q2.Have {
					q2.Have = st.held[q.Lock]
				}
				out.Reqs = append(out.Reqs, q2)
			}
		}
	}
	if deferred {
		for k := range rel {
			st.deferred[k] = true
		}
		return
	}
	for k, m := range acq {
		st.held[k] = m
	}
	for k := range rel {
		if _, held := st.held[k]; held {
			delete(st.held, k)
		} else if out != nil {
			out.Rel[k] = true
		}
	}
}

// mutatesRecv: does method fn write through its receiver (transitively)?
func (e *locksetEngine) mutatesRecv(fn *ssa.Function) bool {
	if fn == nil || fn.Blocks == nil || len(fn.Params) == 0 {
		return false
	}
	if v, ok := e.mutMemo[fn]; ok {
		return v == 1
	}
	e.mutMemo[fn] = 2
	recv := fn.Params[0]
	derived := func(v ssa.Value) bool { return rootsAtDeep(v, recv, 0) }
	res := false
	allInstrs(fn, func(in ssa.Instruction) {
		if res {
			return
		}
		switch x := in.(type) {
		case *ssa.Store:
			if derived(x.Addr) {
				res = true
			}
		case *ssa.MapUpdate:
			if derived(x.Map) {
				res = true
			}
		case ssa.CallInstruction:
			c := x.Common()
			if b, ok := c.Value.(*ssa.Builtin); ok && b.Name() == "delete" && len(c.Args) > 0 && derived(c.Args[0]) {
				res = true
				return
			}
			if f := c.StaticCallee(); f != nil && len(c.Args) > 0 && f.Signature.Recv() != nil && derived(c.Args[0]) {
				if e.mutatesRecv(f) {
					res = true
				}
			}
		}
	})
	if res {
		e.mutMemo[fn] = 1
	}
	return res
}

// rootsAt: v is reached from root through field addresses, loads, index and lookup operations.
func rootsAt(v ssa.Value, root ssa.Value, depth int) bool {
	if depth > 12 {
		return false
	}
	if v == root {
		return true
	}
	switch x := v.(type) {
	case *ssa.FieldAddr:
		return rootsAt(x.X, root, depth+1)
	case *ssa.Field:
		return rootsAt(x.X, root, depth+1)
	case *ssa.IndexAddr:
		return rootsAt(x.X, root, depth+1)
	case *ssa.UnOp:
		if x.Op == token.MUL {
			return rootsAt(x.X, root, depth+1)
		}
	case *ssa.Lookup:
		return rootsAt(x.X, root, depth+1)
	case *ssa.Phi:
		for _, e := range x.Edges {
			if rootsAt(e, root, depth+1) {
				return true
			}
		}
	}
	return false
}

// checkAccess: classify ins as a guarded-field access and check the lock.
func (e *locksetEngine) checkAccess(fn *ssa.Function, ins ssa.Instruction, st *flowState, out *lockSummary) {
	if e.extra != nil {
		if fkey, lock, access, ok := e.extra(fn, ins); ok {
			e.accesses++
			e.seenAccess[fkey+"|"+access+"|"+fname(fn)] = e.w.PosOf(ins)
			need := modeR
			if access == "write" {
				need = modeW
			}
			if have := st.held[lock]; have < need {
				out.Reqs = append(out.Reqs, lockReq{Lock: lock, Mode: need, Have: have, Field: fkey, Access: access, In: fname(fn), Where: e.w.PosOf(ins), Chain: []string{fname(fn)}, Local: have > modeNone})
			}
			return
		}
	}
	var g *guardSpec
	var fkey, access string
	var where ssa.Instruction = ins
	switch x := ins.(type) {
	case *ssa.FieldAddr:
		n, f, base, ok := fieldOf(x)
		if !ok {
			return
		}
		fkey = typeKey(n) + "." + f
		g = e.byField[fkey]
		if g == nil {
			return
		}
		access = e.classify(x, x.Referrers())
		if access == "" {
			return
		}
		if isFreshAt(base, ins) {
			e.freshExempt++
			return
		}
		if access == "write" {
			e.sharedWrite[fkey] = true
		}
	case *ssa.UnOp:
		gl, ok := x.X.(*ssa.Global)
		if !ok || x.Op != token.MUL {
			return
		}
		fkey = globalKey(gl)
		g = e.byGlobal[fkey]
		if g == nil {
			return
		}
		access = e.classifyLoaded(x, "read")
	case *ssa.Store:
		gl, ok := x.Addr.(*ssa.Global)
		if !ok {
			return
		}
		fkey = globalKey(gl)
		g = e.byGlobal[fkey]
		if g == nil {
			return
		}
		if fn.Name() == "init" && fn.Signature.Recv() == nil {
			return // package initialisation happens before any goroutine exists
		}
		access = "write"
	default:
		return
	}
	e.accesses++
	e.seenAccess[fkey+"|"+access+"|"+fname(fn)] = e.w.PosOf(where)
	if g == nil {
		return
	}
	if g.Lock == "" {
		// declared unguarded: every access outside package init is reported
		out.Reqs = append(out.Reqs, lockReq{Lock: "<none>." + fkey, Mode: modeW, Field: fkey, Access: access, In: fname(fn), Where: e.w.PosOf(where), Chain: []string{fname(fn)}, Local: true})
		return
	}
	need := modeR
	if access == "write" {
		need = modeW
	}
	have := st.held[g.Lock]
	if have >= need {
		return
	}
	out.Reqs = append(out.Reqs, lockReq{Lock: g.Lock, Mode: need, Have: have, Field: fkey, Access: access, In: fname(fn), Where: e.w.PosOf(where), Chain: []string{fname(fn)}, Local: have > modeNone})
}

func globalKey(g *ssa.Global) string {
	p := ""
	if g.Pkg != nil {
		p = strings.TrimPrefix(strings.TrimPrefix(g.Pkg.Pkg.Path(), modPath), "/")
	}
	return p + "." + g.Name()
}

// classify: how is the field used? "read", "write" or "" (address taken for locking etc.).
func (e *locksetEngine) classify(fa ssa.Value, refs *[]ssa.Instruction) string {
	if refs == nil {
		return ""
	}
	res := ""
	up := func(s string) {
		if s == "write" || res == "" {
			res = s
		}
	}
	for _, ref := range *refs {
		switch x := ref.(type) {
		case *ssa.Store:
			if x.Addr == fa {
				up("write")
			} else {
				up("read")
			}
		case *ssa.UnOp:
			if x.Op != token.MUL {
				continue
			}
			up(e.classifyLoaded(x, "read"))
		case ssa.CallInstruction:
			// address passed to a call: sync/atomic ops or methods with pointer receivers on the field value
			c := x.Common()
			if f := c.StaticCallee(); f != nil {
				if f.Pkg != nil && (f.Pkg.Pkg.Path() == "sync/atomic" || f.Pkg.Pkg.Path() == "sync") {
					continue
				}
				if f.Signature.Recv() != nil && len(c.Args) > 0 && c.Args[0] == fa && e.w.IsRulio(f) {
					if e.mutatesRecv(f) {
						up("write")
					} else {
						up("read")
					}
					continue
				}
			}
			up("read")
		case *ssa.FieldAddr, *ssa.IndexAddr:
			// nested address: struct field inside the guarded field
			sub := ref.(ssa.Value)
			if sub == fa {
				continue
			}
			if sr := sub.Referrers(); sr != nil {
				for _, z := range *sr {
					if s, ok := z.(*ssa.Store); ok && s.Addr == sub {
						up("write")
					} else {
						up("read")
					}
				}
			}
		default:
			up("read")
		}
	}
	return res
}

// classifyLoaded: the guarded value has been loaded into x; is it written through?
func (e *locksetEngine) classifyLoaded(x ssa.Value, def string) string {
	res := def
	vr := x.Referrers()
	if vr == nil {
		return res
	}
	for _, u := range *vr {
		switch y := u.(type) {
		case *ssa.MapUpdate:
			if y.Map == x {
				res = "write"
			}
		case ssa.CallInstruction:
			c := y.Common()
			if b, ok := c.Value.(*ssa.Builtin); ok && b.Name() == "delete" && len(c.Args) > 0 && c.Args[0] == x {
				res = "write"
			}
			if f := c.StaticCallee(); f != nil && f.Signature.Recv() != nil && len(c.Args) > 0 && c.Args[0] == x && e.w.IsRulio(f) {
				if e.mutatesRecv(f) {
					res = "write"
				}
			}
		case *ssa.IndexAddr:
			if ir := y.Referrers(); ir != nil {
				for _, z := range *ir {
					if s, ok := z.(*ssa.Store); ok && s.Addr == y {
						res = "write"
					}
				}
			}
		}
	}
	return res
}

// ---- reporting ----------------------------------------------------------------------------

type lockFinding struct {
	Req  lockReq
	Root string
	Kind string
}

// solveAll analyses every rulio function, iterating until the summaries of recursive cycles are stable.
func (e *locksetEngine) solveAll() {
	sig := func(m map[string]*lockSummary) string {
		var ks []string
		for k, v := range m {
			var rs []string
			for _, q := range v.Reqs {
				rs = append(rs, q.ident())
			}
			sort.Strings(rs)
			var as []string
			for l, md := range v.Acq {
				as = append(as, l+md.String())
			}
			sort.Strings(as)
			var rl []string
			for l := range v.Rel {
				rl = append(rl, l)
			}
			sort.Strings(rl)
			var tk []string
			for l := range v.Takes {
				tk = append(tk, l)
			}
			sort.Strings(tk)
			ks = append(ks, k+"{"+strings.Join(rs, ",")+"}{"+strings.Join(as, ",")+"}{"+strings.Join(rl, ",")+"}{"+strings.Join(tk, ",")+"}")
		}
		sort.Strings(ks)
		return strings.Join(ks, "\n")
	}
	last := ""
	for round := 0; round < 8; round++ {
		e.memo = map[string]*lockSummary{}
		e.order = nil
		e.accesses, e.lockOps, e.fnAnalysed, e.freshExempt = 0, 0, 0, 0
		for _, fn := range e.w.Funcs {
			if isTestFile(e.w, fn) || fn.Synthetic != "" {
				continue
			}
			e.analyze(fn, "")
		}
		cur := sig(e.memo)
		if cur == last {
			e.rounds = round + 1
			return
		}
		last = cur
		e.prev = e.memo
	}
	undecided("LOCKSET: summaries of recursive functions did not stabilise in 8 rounds")
}

// findings evaluates every rulio function as a potential reporting point.
func (e *locksetEngine) findings(scope func(fn *ssa.Function) bool) []lockFinding {
	e.solveAll()
	var out []lockFinding
	seen := map[string]bool{}
	add := func(q lockReq, root string, kind string) {
		k := q.ident() + "|" + root
		if seen[k] {
			return
		}
		seen[k] = true
		out = append(out, lockFinding{q, root, kind})
	}
	for _, fn := range e.w.Funcs {
		if isTestFile(e.w, fn) || fn.Synthetic != "" {
			continue
		}
		if scope != nil && !scope(fn) {
			continue
		}
		sum := e.analyze(fn, "")
		if len(sum.Reqs) == 0 {
			continue
		}
		callers := e.w.Callers(fn)
		for _, q := range sum.Reqs {
			if q.Final {
				add(q, "go "+q.GoRoot, "goroutine")
				continue
			}
			if q.Local {
				if q.In == fname(fn) {
					add(q, fname(fn), "write-under-read-lock")
				}
				continue
			}
			if !e.inside(fn, q.Lock) {
				// access outside the owner's methods: report here
				if q.In == fname(fn) {
					add(q, fname(fn), "outside-owner")
				}
				continue
			}
			// a conduit (a generic helper that calls the function it is handed) is shared by several owners: what its
			// callback needs is reported at the callers that handed the callback in, not here
			if o := outermost(fn); o.Signature.Recv() == nil && e.callsParam(o) {
				continue
			}
			// inside the owner: report if callable from outside the owner without the lock
			outsideCaller := false
			nonTestCallers := 0
			for _, c := range callers {
				cf := c.Caller.Func
				if isTestFile(e.w, cf) || cf.Synthetic != "" {
					continue
				}
				nonTestCallers++
				if e.inside(cf, q.Lock) {
					continue
				}
				// a constructor calling a method on the object it just allocated is not an outside use
				cc := c.Site.Common()
				if !cc.IsInvoke() && len(cc.Args) > 0 && isFreshAt(cc.Args[0], c.Site) {
					continue
				}
				outsideCaller = true
			}
			exported := fn.Object() != nil && fn.Object().Exported() && fn.Parent() == nil
			if outsideCaller {
				add(q, fname(fn), "api")
			} else if nonTestCallers == 0 && exported {
				add(q, fname(fn), "api-uncalled")
			}
		}
	}
	sort.Slice(out, func(i, j int) bool {
		a, b := out[i], out[j]
		if a.Req.Field != b.Req.Field {
			return a.Req.Field < b.Req.Field
		}
		if a.Req.In != b.Req.In {
			return a.Req.In < b.Req.In
		}
		if a.Root != b.Root {
			return a.Root < b.Root
		}
		return a.Req.ident() < b.Req.ident()
	})
	return out
}

// releases: in (a non-deferred call) may release lock (primitive unlock or a wrapper whose summary releases it).
func (e *locksetEngine) releases(in ssa.Instruction, lock string) bool {
	ci, ok := in.(*ssa.Call)
	if !ok {
		return false
	}
	c := ci.Common()
	if id, acq, _, ok := e.lockOp(c); ok {
		return !acq && id == lock
	}
	for _, callee := range e.calleesOf(ci) {
		if callee == in.Parent() {
			continue
		}
		if e.analyze(callee, specOf(c, callee)).Rel[lock] {
			return true
		}
	}
	return false
}

// acquires: in acquires lock (primitive or wrapper summary).
func (e *locksetEngine) acquires(in ssa.Instruction, lock string) bool {
	ci, ok := in.(*ssa.Call)
	if !ok {
		return false
	}
	c := ci.Common()
	if id, acq, _, ok := e.lockOp(c); ok {
		return acq && id == lock
	}
	for _, callee := range e.calleesOf(ci) {
		if callee == in.Parent() {
			continue
		}
		if _, ok := e.analyze(callee, specOf(c, callee)).Acq[lock]; ok {
			return true
		}
	}
	return false
}

// privilegedAt: a grant of the context privilege dominates the call and no revoke lies between (the idiom around
// hook calls: withPrivilege(ctx); defer withoutPrivilege(ctx); hook(...)).
func (e *locksetEngine) privilegedAt(fn *ssa.Function, at ssa.Instruction) bool {
	if e.priv == nil {
		e.priv = findPrivAnchors(e.w)
	}
	p := e.priv
	priv := false
	allInstrs(fn, func(in ssa.Instruction) {
		if priv {
			return
		}
		if _, isDefer := in.(*ssa.Defer); isDefer || !p.isGrant(in) {
			return
		}
		if instrDominates(in, at) && between(fn, in, at, func(x ssa.Instruction) bool {
			_, isDefer := x.(*ssa.Defer)
			return !isDefer && p.isRevoke(x)
		}) == nil {
			priv = true
		}
	})
	return priv
}

// isStateLock: the lock class belongs to a State implementation (the locks whose acquisition the privilege skips).
func (e *locksetEngine) isStateLock(id string) bool {
	if e.stateLocks == nil {
		e.stateLocks = map[string]bool{}
		a := newLocAnchors(e.w)
		for nt := range a.stateImp {
			e.stateLocks[typeKey(nt)] = true
		}
	}
	for owner := range e.stateLocks {
		if strings.HasPrefix(id, owner+".") {
			return true
		}
	}
	return false
}
