package main

// rules_total.go: C13 — no input can crash, hang or poison a location (TERM, PANIC-*, NIL-AFTER-ERR, LOCK-DEFER, ERR-SWALLOW).

import (
	"go/token"
	"go/types"

	"golang.org/x/tools/go/ssa"
)

// recursive call sites of an SCC, with whether each has a decreasing (projection-derived) argument
type recCall struct {
	From, To []*ssa.Function
	In       ssa.Instruction
	Dec      bool
	Bounded  bool
}

func sccCalls(w *World, c scc) []recCall {
	in := map[*ssa.Function]bool{}
	for _, f := range c.Fns {
		in[f] = true
	}
	var out []recCall
	for _, f := range c.Fns {
		f := f
		allInstrs(f, func(ins ssa.Instruction) {
			ci, ok := ins.(ssa.CallInstruction)
			if !ok {
				return
			}
			var tos []*ssa.Function
			if sc := ci.Common().StaticCallee(); sc != nil {
				if in[sc] {
					tos = append(tos, sc)
				}
			} else {
				for _, callee := range w.Callees(ci) {
					if in[callee] {
						tos = append(tos, callee)
					}
				}
			}
			if len(tos) == 0 {
				return
			}
			cc := ci.Common()
			args := cc.Args
			if cc.IsInvoke() {
				args = append([]ssa.Value{cc.Value}, args...)
			}
			rc := recCall{From: []*ssa.Function{f}, To: tos, In: ins}
			for _, a := range args {
				if projectionDerived(f, a) {
					rc.Dec = true
				}
				// bounded: an int parameter +/- a constant, with a comparison on that parameter in the function
				if b, ok := a.(*ssa.BinOp); ok && (b.Op == token.SUB || b.Op == token.ADD) {
					if p, ok := b.X.(*ssa.Parameter); ok {
						if _, isC := b.Y.(*ssa.Const); isC {
							tested := false
							allInstrs(f, func(x ssa.Instruction) {
								if cmp, ok := x.(*ssa.BinOp); ok && (cmp.Op == token.LSS || cmp.Op == token.LEQ || cmp.Op == token.GTR || cmp.Op == token.GEQ) && (cmp.X == ssa.Value(p) || cmp.Y == ssa.Value(p)) {
									tested = true
								}
							})
							if tested {
								rc.Bounded = true
							}
						}
					}
				}
			}
			out = append(out, rc)
		})
	}
	return out
}

// termClass classifies one SCC; returns class name or "" with a reason.
func termClass(w *World, c scc) (string, string) {
	calls := sccCalls(w, c)
	// every cycle must contain a decreasing (or bounded) call: the sub-graph of the other calls must be acyclic
	adj := map[*ssa.Function][]*ssa.Function{}
	why := ""
	allBounded := true
	for _, rc := range calls {
		if !rc.Bounded {
			allBounded = false
		}
		if rc.Dec || rc.Bounded {
			continue
		}
		adj[rc.From[0]] = append(adj[rc.From[0]], rc.To...)
		if why == "" {
			why = "the recursive call at " + w.PosOf(rc.In) + " in " + fname(rc.From[0]) + " passes no argument that is a strict projection of the caller's parameters"
		}
	}
	// cycle detection on adj
	color := map[*ssa.Function]int{}
	var cyc bool
	var dfs func(f *ssa.Function)
	dfs = func(f *ssa.Function) {
		color[f] = 1
		for _, g := range adj[f] {
			if color[g] == 1 {
				cyc = true
			} else if color[g] == 0 {
				dfs(g)
			}
		}
		color[f] = 2
	}
	for _, f := range c.Fns {
		if color[f] == 0 {
			dfs(f)
		}
	}
	if !cyc {
		if allBounded && len(calls) > 0 {
			return "bounded (a counter parameter moves by a constant and is tested)", ""
		}
		return "structural (every cycle passes a call whose argument is a strict projection of the caller's parameters)", ""
	}
	return "", why
}

func ruleTerm(prop string) ruleFn {
	return func(w *World, r *Report) {
		r.Rule("TERM", "every recursive cycle among rulio functions (SCC of the VTA call graph) is in an accepted class: (structural) every recursive call passes an argument built from strict projections of the caller's parameters, so the recursion follows the finite nesting of the input; (state-decreasing) the cycle runs through the removal primitive of a state and CASC-ORDER holds (the fact map strictly shrinks); (table) a named exception with its reason.  Anything else is unbounded recursion on some input", 10)
		sccs := rulioSCCs(w)
		a := newLocAnchors(w)
		for _, c := range sccs {
			key := "scc={" + c.Name + "}"
			where := w.Pos(c.Fns[0].Pos())
			if cls, _ := termClass(w, c); cls != "" {
				r.ok("TERM", key, where, "class "+cls)
				continue
			}
			// visited-set: a map parameter is handed on unchanged, tested on entry (present => no recursion) and extended before recursing
			if why := visitedSetClass(w, c); why == "" {
				r.ok("TERM", key, where, "class visited-set (a set parameter is tested on the way in, extended before every recursive call and handed on: depth is bounded by the number of distinct keys)")
				continue
			}
			// state-decreasing: contains a function that deletes from a state's fact map
			stateDec := false
			for _, f := range c.Fns {
				owner, ok := stateOwnerOf(a, f)
				if !ok {
					continue
				}
				allInstrs(f, func(in ssa.Instruction) {
					if cc := callOf(in); cc != nil {
						if b, ok := cc.Value.(*ssa.Builtin); ok && b.Name() == "delete" && len(cc.Args) == 2 && isFieldLoad(cc.Args[0], owner, stateFactField[owner]) {
							stateDec = true
						}
					}
				})
			}
			if stateDec {
				r.ok("TERM", key, where, "class state-decreasing (the cycle removes an id from the fact map before recursing; ordering decided by CASC-ORDER under C08)")
				continue
			}
			_, why := termClass(w, c)
			if ex, ok := termExceptions[c.Name]; ok {
				if bad := ex.Premise(w, c); bad == "" {
					r.exempt("TERM", key, where, ex.Reason)
					continue
				} else {
					why += "; exception premise false: " + bad
				}
			}
			r.violation("TERM", key, where, "recursive cycle in no accepted class: "+why)
		}
		r.stat("TERM.recursive_sccs", len(sccs))
	}
}

type termException struct {
	Reason  string
	Premise func(w *World, c scc) string
}

var termExceptions = map[string]termException{
	"core.cast": {
		Reason: "the one non-decreasing call re-enters cast with the result of ISlice, which is always a []interface{}; that case of cast only makes decreasing calls (on the elements), so the extra step happens at most once per level",
		Premise: func(w *World, c scc) string {
			for _, rc := range sccCalls(w, c) {
				if rc.Dec {
					continue
				}
				cc := rc.In.(ssa.CallInstruction).Common()
				ok := false
				if len(cc.Args) == 1 {
					if ex, isEx := cc.Args[0].(*ssa.Extract); isEx {
						if call, isCall := ex.Tuple.(*ssa.Call); isCall && isPkgFunc(calleeObj(call.Common()), modPath+"/core", "ISlice") {
							ok = true
						}
					}
				}
				if !ok {
					return "non-decreasing call at " + w.PosOf(rc.In) + " does not pass the result of ISlice"
				}
			}
			return ""
		},
	},
	"(*service.Service).ProcessRequest": {
		Reason: "constant re-dispatch (depth <= 2): each non-decreasing recursive call first overwrites m[\"uri\"] with a constant URI whose own case contains no recursive call; the batch case recurses on the elements of the `requests` array (structural)",
		Premise: func(w *World, c scc) string {
			fn := c.Fns[0]
			// constants whose case region contains a recursive call
			recursiveCase := map[string]bool{}
			leafKnown := map[string]bool{}
			for _, b := range fn.Blocks {
				if len(b.Instrs) == 0 {
					continue
				}
				ifi, ok := b.Instrs[len(b.Instrs)-1].(*ssa.If)
				if !ok {
					continue
				}
				cmp, ok := ifi.Cond.(*ssa.BinOp)
				if !ok || cmp.Op != token.EQL {
					continue
				}
				cs, ok := constString(cmp.Y)
				if !ok {
					continue
				}
				region := b.Succs[0]
				has := false
				for _, bb := range fn.Blocks {
					if !region.Dominates(bb) {
						continue
					}
					for _, in := range bb.Instrs {
						if cc := callOf(in); cc != nil && cc.StaticCallee() == fn {
							has = true
						}
					}
				}
				if has {
					recursiveCase[cs] = true
				} else {
					leafKnown[cs] = true
				}
			}
			for _, rc := range sccCalls(w, c) {
				if rc.Dec {
					continue
				}
				// the last MapUpdate of key "uri" before the call in the same block
				var last *ssa.MapUpdate
				for _, in := range rc.In.Block().Instrs {
					if in == rc.In {
						break
					}
					if mu, ok := in.(*ssa.MapUpdate); ok {
						if k, ok := constKey(mu.Key); ok && k == "uri" {
							last = mu
						}
					}
				}
				if last == nil {
					return "recursive call at " + w.PosOf(rc.In) + " is not preceded by an overwrite of m[\"uri\"]"
				}
				cs, ok := constKey(last.Value)
				if !ok {
					return "recursive call at " + w.PosOf(rc.In) + " re-dispatches on a non-constant uri"
				}
				if recursiveCase[cs] || !leafKnown[cs] {
					return "recursive call at " + w.PosOf(rc.In) + " re-dispatches to " + cs + ", whose case is not known to be free of recursive calls"
				}
			}
			return ""
		},
	},
}

func init() {
	register(&propertySpec{
		ID:      "C13",
		Explain: "Static totality rules: recursion classes, may-panic sites on input-derived data, nil use after an ignored error, locks released by plain calls around code that can panic, swallowed errors.",
		Rules:   []ruleFn{ruleTerm("C13")},
	})
}

// visitedSetClass: "" if every non-decreasing recursive call of the SCC is guarded by a visited set.
func visitedSetClass(w *World, c scc) string {
	calls := sccCalls(w, c)
	n := 0
	for _, rc := range calls {
		if rc.Dec || rc.Bounded {
			continue
		}
		n++
		f := rc.From[0]
		cc := rc.In.(ssa.CallInstruction).Common()
		args := cc.Args
		// a map-typed parameter of f handed on unchanged
		var set *ssa.Parameter
		for _, a := range args {
			if p, ok := a.(*ssa.Parameter); ok {
				if _, isMap := p.Type().Underlying().(*types.Map); isMap {
					set = p
				}
			}
		}
		if set == nil {
			return "no set parameter is handed to the recursive call at " + w.PosOf(rc.In)
		}
		// insertion into the set on every path to the call
		isInsert := func(in ssa.Instruction) bool {
			mu, ok := in.(*ssa.MapUpdate)
			return ok && mu.Map == ssa.Value(set)
		}
		if h, _ := reach(f, nil, func(x ssa.Instruction) bool { return x == rc.In }, isInsert, nil); h != nil {
			return "the recursive call at " + w.PosOf(rc.In) + " is reachable without an insertion into the visited set"
		}
		// membership test: an If on a lookup in the set whose present-edge cannot reach the call
		tested := false
		for _, b := range f.Blocks {
			if len(b.Instrs) == 0 {
				continue
			}
			ifi, ok := b.Instrs[len(b.Instrs)-1].(*ssa.If)
			if !ok {
				continue
			}
			ct, ok := decodeIf(ifi)
			if !ok {
				continue
			}
			var lk *ssa.Lookup
			switch x := ct.V.(type) {
			case *ssa.Lookup:
				lk = x
			case *ssa.Extract:
				if l, ok := x.Tuple.(*ssa.Lookup); ok && x.Index == 1 {
					lk = l
				}
			}
			if lk == nil || lk.X != ssa.Value(set) {
				continue
			}
			present := b.Succs[0]
			if ct.TrueWhen == "false" {
				present = b.Succs[1]
			}
			if !(present == rc.In.Block() || blockReaches(present, rc.In.Block(), nil)) && b.Dominates(rc.In.Block()) {
				tested = true
			}
		}
		if !tested {
			return "no membership test on the visited set dominates the recursive call at " + w.PosOf(rc.In)
		}
	}
	if n == 0 {
		return "not applicable"
	}
	return ""
}
