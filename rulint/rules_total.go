package main

// rules_total.go: C13 — no input can crash, hang or poison a location (TERM, PANIC-*, NIL-AFTER-ERR, LOCK-DEFER, ERR-SWALLOW).

import (
	"go/token"
	"go/types"
	"strings"

	"golang.org/x/tools/go/ssa"
)

// recursive call sites of an SCC, with whether each has a decreasing (projection-derived) argument
type recCall struct {
	From, To []*ssa.Function
	In       ssa.Instruction
	Dec      bool
	Bounded  bool
}

func sccCalls(w *World, c scc) []recCall {
	in := map[*ssa.Function]bool{}
	for _, f := range c.Fns {
		in[f] = true
	}
	var out []recCall
	for _, f := range c.Fns {
		f := f
		allInstrs(f, func(ins ssa.Instruction) {
			ci, ok := ins.(ssa.CallInstruction)
			if !ok {
				return
			}
			var tos []*ssa.Function
			if sc := ci.Common().StaticCallee(); sc != nil {
				if in[sc] {
					tos = append(tos, sc)
				}
			} else {
				for _, callee := range w.Callees(ci) {
					if in[callee] {
						tos = append(tos, callee)
					}
				}
			}
			if len(tos) == 0 {
				return
			}
			cc := ci.Common()
			args := cc.Args
			if cc.IsInvoke() {
				args = append([]ssa.Value{cc.Value}, args...)
			}
			rc := recCall{From: []*ssa.Function{f}, To: tos, In: ins}
			// a direct self-recursion descends only if some argument is a strict projection of the parameter *in the same
			// position*: Bind(bs, pat) calling Bind(bs, bs[v]) hands on a projection of its first parameter as its
			// second — nothing gets smaller (a binding can name itself)
			selfRec := len(tos) == 1 && tos[0] == f && cc.StaticCallee() == f && len(args) == len(f.Params)
			for ai, a := range args {
				if selfRec {
					if projectionDerivedFrom(f, a, f.Params[ai]) {
						rc.Dec = true
					}
				} else if projectionDerived(f, a) {
					rc.Dec = true
				}
				// bounded: an int parameter +/- a constant, with a comparison on that parameter in the function
				if b, ok := a.(*ssa.BinOp); ok && (b.Op == token.SUB || b.Op == token.ADD) {
					if p, ok := b.X.(*ssa.Parameter); ok {
						if _, isC := b.Y.(*ssa.Const); isC {
							tested := false
							allInstrs(f, func(x ssa.Instruction) {
								if cmp, ok := x.(*ssa.BinOp); ok && (cmp.Op == token.LSS || cmp.Op == token.LEQ || cmp.Op == token.GTR || cmp.Op == token.GEQ) && (cmp.X == ssa.Value(p) || cmp.Y == ssa.Value(p)) {
									tested = true
								}
							})
							if tested {
								rc.Bounded = true
							}
						}
					}
				}
			}
			out = append(out, rc)
		})
	}
	return out
}

// termClass classifies one SCC; returns class name or "" with a reason.
func termClass(w *World, c scc) (string, string) {
	calls := sccCalls(w, c)
	// every cycle must contain a decreasing (or bounded) call: the sub-graph of the other calls must be acyclic
	adj := map[*ssa.Function][]*ssa.Function{}
	why := ""
	allBounded := true
	for _, rc := range calls {
		if !rc.Bounded {
			allBounded = false
		}
		if rc.Dec || rc.Bounded {
			continue
		}
		adj[rc.From[0]] = append(adj[rc.From[0]], rc.To...)
		if why == "" {
			why = "the recursive call at " + w.PosOf(rc.In) + " in " + fname(rc.From[0]) + " passes no argument that is a strict projection of the caller's parameters"
		}
	}
	// cycle detection on adj
	color := map[*ssa.Function]int{}
	var cyc bool
	var dfs func(f *ssa.Function)
	dfs = func(f *ssa.Function) {
		color[f] = 1
		for _, g := range adj[f] {
			if color[g] == 1 {
				cyc = true
			} else if color[g] == 0 {
				dfs(g)
			}
		}
		color[f] = 2
	}
	for _, f := range c.Fns {
		if color[f] == 0 {
			dfs(f)
		}
	}
	if !cyc {
		if allBounded && len(calls) > 0 {
			return "bounded (a counter parameter moves by a constant and is tested)", ""
		}
		return "structural (every cycle passes a call whose argument is a strict projection of the caller's parameters)", ""
	}
	return "", why
}

func ruleTerm(prop string) ruleFn {
	return func(w *World, r *Report) {
		r.Rule("TERM", "every recursive cycle among rulio functions (SCC of the VTA call graph) is in an accepted class: (structural) every recursive call passes an argument built from strict projections of the caller's parameters, so the recursion follows the finite nesting of the input; (state-decreasing) the cycle runs through the removal primitive of a state and CASC-ORDER holds (the fact map strictly shrinks); (table) a named exception with its reason.  Anything else is unbounded recursion on some input", 10)
		sccs := rulioSCCs(w)
		a := newLocAnchors(w)
		for _, c := range sccs {
			key := "scc={" + c.Name + "}"
			where := w.Pos(c.Fns[0].Pos())
			if cls, _ := termClass(w, c); cls != "" {
				r.ok("TERM", key, where, "class "+cls)
				continue
			}
			// visited-set: a map parameter is handed on unchanged, tested on entry (present => no recursion) and extended before recursing
			if why := visitedSetClass(w, c); why == "" {
				r.ok("TERM", key, where, "class visited-set (a set parameter is tested on the way in, extended before every recursive call and handed on: depth is bounded by the number of distinct keys)")
				continue
			}
			// state-decreasing: contains a function that deletes from a state's fact map
			stateDec := false
			for _, f := range c.Fns {
				owner, ok := stateOwnerOf(a, f)
				if !ok {
					continue
				}
				allInstrs(f, func(in ssa.Instruction) {
					if cc := callOf(in); cc != nil {
						if b, ok := cc.Value.(*ssa.Builtin); ok && b.Name() == "delete" && len(cc.Args) == 2 && isFieldLoad(cc.Args[0], owner, stateFactField[owner]) {
							stateDec = true
						}
					}
				})
			}
			if stateDec {
				r.ok("TERM", key, where, "class state-decreasing (the cycle removes an id from the fact map before recursing; ordering decided by CASC-ORDER under C08)")
				continue
			}
			_, why := termClass(w, c)
			if ex, ok := termExceptions[c.Name]; ok {
				if bad := ex.Premise(w, c); bad == "" {
					r.exempt("TERM", key, where, ex.Reason)
					continue
				} else {
					why += "; exception premise false: " + bad
				}
			}
			r.violation("TERM", key, where, "recursive cycle in no accepted class: "+why)
		}
		r.stat("TERM.recursive_sccs", len(sccs))
	}
}

type termException struct {
	Reason  string
	Premise func(w *World, c scc) string
}

var termExceptions = map[string]termException{
	"core.cast": {
		Reason: "the one non-decreasing call re-enters cast with the result of ISlice, which is always a []interface{}; that case of cast only makes decreasing calls (on the elements), so the extra step happens at most once per level",
		Premise: func(w *World, c scc) string {
			for _, rc := range sccCalls(w, c) {
				if rc.Dec {
					continue
				}
				cc := rc.In.(ssa.CallInstruction).Common()
				ok := false
				if len(cc.Args) == 1 {
					if ex, isEx := cc.Args[0].(*ssa.Extract); isEx {
						if call, isCall := ex.Tuple.(*ssa.Call); isCall && isPkgFunc(calleeObj(call.Common()), modPath+"/core", "ISlice") {
							ok = true
						}
					}
				}
				if !ok {
					return "non-decreasing call at " + w.PosOf(rc.In) + " does not pass the result of ISlice"
				}
			}
			return ""
		},
	},
	"(*service.Service).ProcessRequest": {
		Reason: "constant re-dispatch (depth <= 2): each non-decreasing recursive call first overwrites m[\"uri\"] with a constant URI whose own case contains no recursive call; the batch case recurses on the elements of the `requests` array (structural)",
		Premise: func(w *World, c scc) string {
			fn := c.Fns[0]
			// constants whose case region contains a recursive call
			recursiveCase := map[string]bool{}
			leafKnown := map[string]bool{}
			for _, b := range fn.Blocks {
				if len(b.Instrs) == 0 {
					continue
				}
				ifi, ok := b.Instrs[len(b.Instrs)-1].(*ssa.If)
				if !ok {
					continue
				}
				cmp, ok := ifi.Cond.(*ssa.BinOp)
				if !ok || cmp.Op != token.EQL {
					continue
				}
				cs, ok := constString(cmp.Y)
				if !ok {
					continue
				}
				region := b.Succs[0]
				has := false
				for _, bb := range fn.Blocks {
					if !region.Dominates(bb) {
						continue
					}
					for _, in := range bb.Instrs {
						if cc := callOf(in); cc != nil && cc.StaticCallee() == fn {
							has = true
						}
					}
				}
				if has {
					recursiveCase[cs] = true
				} else {
					leafKnown[cs] = true
				}
			}
			for _, rc := range sccCalls(w, c) {
				if rc.Dec {
					continue
				}
				// the last MapUpdate of key "uri" before the call in the same block
				var last *ssa.MapUpdate
				for _, in := range rc.In.Block().Instrs {
					if in == rc.In {
						break
					}
					if mu, ok := in.(*ssa.MapUpdate); ok {
						if k, ok := constKey(mu.Key); ok && k == "uri" {
							last = mu
						}
					}
				}
				if last == nil {
					return "recursive call at " + w.PosOf(rc.In) + " is not preceded by an overwrite of m[\"uri\"]"
				}
				cs, ok := constKey(last.Value)
				if !ok {
					return "recursive call at " + w.PosOf(rc.In) + " re-dispatches on a non-constant uri"
				}
				if recursiveCase[cs] || !leafKnown[cs] {
					return "recursive call at " + w.PosOf(rc.In) + " re-dispatches to " + cs + ", whose case is not known to be free of recursive calls"
				}
			}
			return ""
		},
	},
}

func init() {
	register(&propertySpec{
		ID:      "C13",
		Explain: "Static totality rules: recursion classes, may-panic sites on input-derived data, nil use after an ignored error, locks released by plain calls around code that can panic, swallowed errors.",
		Rules:   []ruleFn{ruleListTolerant, ruleCacheNilGuard, ruleTerm("C13"), rulePanics, rulePanicNilUse, ruleErrSwallow, ruleNilAfterErr, ruleLockDefer, rulePrivPair, ruleCacheErrOrigin, ruleNilZeroArg, ruleLockReentry("C13"), rulePendingPair("C13"), ruleHookLoadTolerant("C13"), ruleTypedNil("C13"), ruleRecoverAll("C13"), ruleRuleShapedSkip("C13"), rulePropTyped("C13"), ruleParseRecover, ruleLockSend("C13"), ruleBrkInterval("C13"), rulePrepLoadTolerant("C13"), rulePanicMust, rulePrivLocal("C13"), ruleRandGuard("C13"), ruleErrRedress("C13")},
	})
}

// visitedSetClass: "" if every non-decreasing recursive call of the SCC is guarded by a visited set.
func visitedSetClass(w *World, c scc) string {
	calls := sccCalls(w, c)
	n := 0
	for _, rc := range calls {
		if rc.Dec || rc.Bounded {
			continue
		}
		n++
		f := rc.From[0]
		cc := rc.In.(ssa.CallInstruction).Common()
		args := cc.Args
		// the map-typed parameters of f handed on unchanged: one of them has to be a visited set
		var sets []*ssa.Parameter
		for _, a := range args {
			if p, ok := a.(*ssa.Parameter); ok {
				if _, isMap := p.Type().Underlying().(*types.Map); isMap {
					sets = append(sets, p)
				}
			}
		}
		if len(sets) == 0 {
			return "no set parameter is handed to the recursive call at " + w.PosOf(rc.In)
		}
		why := ""
		for _, set := range sets {
			if why = visitedSetGuards(w, f, rc.In, set); why == "" {
				break
			}
		}
		if why != "" {
			return why
		}
	}
	if n == 0 {
		return "not applicable"
	}
	return ""
}

// visitedSetGuards: "" if set is tested on the way in (present => the call is not reached) and extended on every path
// to the recursive call.
func visitedSetGuards(w *World, f *ssa.Function, call ssa.Instruction, set *ssa.Parameter) string {
	// insertion into the set on every path to the call
	isInsert := func(in ssa.Instruction) bool {
		mu, ok := in.(*ssa.MapUpdate)
		return ok && mu.Map == ssa.Value(set)
	}
	if h, _ := reach(f, nil, func(x ssa.Instruction) bool { return x == call }, isInsert, nil); h != nil {
		return "the recursive call at " + w.PosOf(call) + " is reachable without an insertion into the visited set"
	}
	// membership test: an If on a lookup in the set whose present-edge cannot reach the call
	tested := false
	for _, b := range f.Blocks {
		if len(b.Instrs) == 0 {
			continue
		}
		ifi, ok := b.Instrs[len(b.Instrs)-1].(*ssa.If)
		if !ok {
			continue
		}
		ct, ok := decodeIf(ifi)
		if !ok {
			continue
		}
		var lk *ssa.Lookup
		switch x := ct.V.(type) {
		case *ssa.Lookup:
			lk = x
		case *ssa.Extract:
			if l, ok := x.Tuple.(*ssa.Lookup); ok && x.Index == 1 {
				lk = l
			}
		}
		if lk == nil || lk.X != ssa.Value(set) {
			continue
		}
		present := b.Succs[0]
		if ct.TrueWhen == "false" {
			present = b.Succs[1]
		}
		if !(present == call.Block() || blockReaches(present, call.Block(), nil)) && b.Dominates(call.Block()) {
			tested = true
		}
	}
	if !tested {
		return "no membership test on the visited set dominates the recursive call at " + w.PosOf(call)
	}
	return ""
}

// ---- PANIC rules ---------------------------------------------------------------------------------

// panicExemptions: kind|function|detail -> reason.  One named construct each.
var panicExemptions = map[string]string{
	"assert|(*core.Cache).Get|*core.cacheEntry":                             "the cache holds only *cacheEntry values: Cache.Add is the only writer of the underlying LRU (who-may-call, by reading)",
	"assert|core.CachedSlurp|string":                                        "SlurpCache holds only strings: CachedSlurp is its only writer",
	"assert|(core.ThingSlice).Less|string":                                  "Less is reached only through sort.Sort on a ThingSlice built by AsThingSlice, which refuses heterogeneous slices (IsSortable); the first element's type switch therefore decides all",
	"assert|(core.ThingSlice).Less|float64":                                 "see ThingSlice.Less / string",
	"assert|(core.ThingSlice).Less|int":                                     "see ThingSlice.Less / string",
	"assert|(core.ThingSlice).Less|bool":                                    "see ThingSlice.Less / string (the case was added by the LESS-COVERS repair)",
	"assert|sys.GetStorage|string":                                          "start-up configuration value supplied by the embedder, not request input",
	"assert|(*service.Service).ProcessRequest|float64":                      "/api/sys/admin/* operator endpoint, outside the location API the property is about",
	"panic|(*service.Service).ProcessRequest":                               "/api/sys/admin/panic exists to panic on purpose (operator endpoint)",
	"panic|(core.StringSet).json":                                           "json.Marshal of a []string cannot fail",
	"panic|core.MustMap":                                                    "Must-style helper for literals in tests and examples; no request path calls it (checked: callers)",
	"panic|core.NewCache":                                                   "constructor: lru.New fails only for a non-positive size, a programming error at start-up",
	"panic|core.Profile":                                                    "developer profiling helper, not reachable from any request",
	"panic|core.SetParameters":                                              "start-up configuration",
	"panic|sys.SimpleSystem":                                                "example / test constructor",
	"panic|core.throwJavascript":                                            "by design: the panic carries a JavaScript exception that otto catches and turns into a script error",
	"panic|core.RunJavascript$c":                                            "by design: the watchdog's interrupt function panics with Halt inside the otto runtime; RunJavascript's deferred recover turns it into an error (RECOVER-RESULT)",
	"panic|core.RunJavascript$c$c":                                          "see RunJavascript$c",
	"index|(*core.Location).ListRules|field core.SearchResult.Bindingss[0]": "a SearchResult is only emitted with at least one binding (SEARCH-REMATCH: 0 < len(bss))",
	"index|(*cron.Cron).Add|param schedule[1]":                              "guarded by core.OneShotSchedule(schedule), which is false for the empty string",
	"index|core.Log|append[1]":                                              "args always holds at least the op key and the appended origin fields",
	"index|cron.ParseSchedule|strings.SplitN[0]":                            "strings.SplitN never returns an empty slice for n != 0",
}

func panicKey(w *World, s panicSite) (string, string) {
	detail := ""
	if s.Kind == "assert" {
		ta := s.In.(*ssa.TypeAssert)
		detail = "|" + types.TypeString(ta.AssertedType, func(p *types.Package) string { return p.Name() })
	}
	if s.Kind == "index" {
		// what is indexed (its producer, never an SSA register name) and with which constant: an exemption speaks
		// about one indexed expression, not about every index in the function
		var x, idx ssa.Value
		switch y := s.In.(type) {
		case *ssa.Lookup:
			x, idx = y.X, y.Index
		case *ssa.IndexAddr:
			x, idx = y.X, y.Index
		case *ssa.Index:
			x, idx = y.X, y.Index
		case *ssa.Slice:
			x, idx = y.X, y.High
		}
		detail = "|" + producerName(x) + "[" + constText(idx) + "]"
	}
	return s.Kind + "|" + fname(s.Fn) + detail, detail
}

func constText(v ssa.Value) string {
	if c, ok := v.(*ssa.Const); ok && c.Value != nil {
		return c.Value.String()
	}
	return "?"
}

// producerName: a stable name for where a value comes from: the callee of the call that produced it, the
// parameter, the field or the global it was loaded from.
func producerName(v ssa.Value) string {
	for i := 0; i < 6 && v != nil; i++ {
		switch x := v.(type) {
		case *ssa.Call:
			if f := x.Common().StaticCallee(); f != nil {
				return fname(f)
			}
			if x.Common().IsInvoke() {
				return x.Common().Method.Name()
			}
			if b, ok := x.Common().Value.(*ssa.Builtin); ok {
				return b.Name()
			}
			return "call"
		case *ssa.Extract:
			v = x.Tuple
			continue
		case *ssa.Parameter:
			return "param " + x.Name()
		case *ssa.FreeVar:
			return "var " + x.Name()
		case *ssa.Global:
			return "global " + x.Name()
		case *ssa.UnOp:
			if fa, ok := x.X.(*ssa.FieldAddr); ok {
				if n, f, _, ok := fieldOf(fa); ok {
					return "field " + typeKey(n) + "." + f
				}
			}
			if a, ok := x.X.(*ssa.Alloc); ok {
				return "local " + a.Comment
			}
			v = x.X
			continue
		case *ssa.Slice:
			v = x.X
			continue
		case *ssa.ChangeType:
			v = x.X
			continue
		case *ssa.Convert:
			v = x.X
			continue
		case *ssa.Phi:
			return "phi " + x.Comment
		case *ssa.TypeAssert:
			return "assert " + types.TypeString(x.AssertedType, func(p *types.Package) string { return p.Name() })
		case *ssa.Lookup:
			return "lookup"
		}
		break
	}
	if v == nil {
		return "?"
	}
	return types.TypeString(v.Type(), func(p *types.Package) string { return p.Name() })
}

func rulePanics(w *World, r *Report) {
	r.Rule("PANIC-ASSERT", "no single-result type assertion x.(T) in core, sys, service or cron is applied to a value whose dynamic type is not established by a dominating comma-ok assertion / type-switch arm on the same value (type-set data-flow, multi-type case arms handled); each remaining site is either a violation or a named exception with its invariant", 8)
	r.Rule("PANIC-EXPLICIT", "every explicit panic(...) in core, sys, service or cron is a re-panic of a recovered value, a by-design control transfer that is recovered (script exceptions, the script watchdog), start-up / developer-only code, or a violation", 6)
	r.Rule("PANIC-INDEX", "every constant index / constant-bound slice of a string or slice is dominated by a test of its length, or indexes a slice made with a sufficient constant length; remaining sites are violations or named exceptions", 4)
	counts := map[string]int{}
	for _, fn := range w.Funcs {
		if isTestFile(w, fn) {
			continue
		}
		p := w.RelPkg(fn)
		if p != "core" && p != "sys" && p != "service" && p != "cron" {
			continue
		}
		var sites []panicSite
		sites = append(sites, uncheckedAsserts(fn)...)
		sites = append(sites, explicitPanics(fn)...)
		sites = append(sites, constIndexSites(fn)...)
		for _, s := range sites {
			rule := map[string]string{"assert": "PANIC-ASSERT", "panic": "PANIC-EXPLICIT", "index": "PANIC-INDEX"}[s.Kind]
			k, _ := panicKey(w, s)
			counts[k]++
			key := k
			if counts[k] > 1 {
				key += "#" + itoa(counts[k])
			}
			if reason, ok := panicExemptions[k]; ok {
				r.exempt(rule, key, w.PosOf(s.In), reason)
				continue
			}
			r.violation(rule, key, w.PosOf(s.In), s.Desc+": a malformed input panics here")
		}
	}
	// safe assertions are counted so that the rule cannot pass vacuously
	safe := 0
	for _, fn := range w.Funcs {
		if isTestFile(w, fn) {
			continue
		}
		p := w.RelPkg(fn)
		if p != "core" && p != "sys" && p != "service" && p != "cron" {
			continue
		}
		allInstrs(fn, func(in ssa.Instruction) {
			if ta, ok := in.(*ssa.TypeAssert); ok && !ta.CommaOk {
				safe++
			}
		})
	}
	r.stat("PANIC-ASSERT.single_result_assertions_total", safe)
}

// ERR-SWALLOW: a named error result is assigned from a call but the function returns a literal nil.
func ruleErrSwallow(w *World, r *Report) {
	r.Rule("ERR-SWALLOW", "a function that stores a callee's error into its named error result does not then return a literal nil error on a path from that store (the error would be computed and thrown away: e.g. ParseMap reporting success for invalid JSON)", 1)
	n := 0
	for _, fn := range w.Funcs {
		if isTestFile(w, fn) || fn.Synthetic != "" {
			continue
		}
		p := w.RelPkg(fn)
		if p != "core" && p != "sys" && p != "service" && p != "cron" {
			continue
		}
		idx := errorResultIndex(fn.Signature)
		if idx < 0 || fn.Signature.Results().At(idx).Name() == "" {
			continue
		}
		n++
		// with named results and no defer, go/ssa keeps `err` as an SSA value: the signature of the defect is a call whose error
		// result is assigned to the named result variable and never used
		bad := ""
		allInstrs(fn, func(in ssa.Instruction) {
			c, ok := in.(*ssa.Call)
			if !ok {
				return
			}
			eidx := errorResultIndex(c.Common().Signature())
			if eidx < 0 {
				return
			}
			e := errResultOf(c, eidx)
			if e == nil {
				// discarded: was it syntactically assigned to the named result?  (`err = f()` with err never read)
				if assignedToNamedResult(w, fn, c, fn.Signature.Results().At(idx).Name()) {
					bad = w.PosOf(in)
				}
			}
		})
		key := "fn=" + fname(fn)
		if bad != "" {
			r.violation("ERR-SWALLOW", key, bad, "the error assigned to the named result here is never returned: the function always reports success")
		} else {
			r.ok("ERR-SWALLOW", key, w.Pos(fn.Pos()), "no computed-and-discarded error")
		}
	}
	r.stat("ERR-SWALLOW.functions_with_named_error_result", n)
}

// ---- NIL-AFTER-ERR -----------------------------------------------------------------------------------

func ruleNilAfterErr(w *World, r *Report) {
	r.Rule("NIL-AFTER-ERR", "when a call returns (pointer, error) and the error branch does not leave the function (it only logs), the pointer is not dereferenced afterwards on a path from that branch: on failure the pointer is nil and the dereference panics", 20)
	n := 0
	for _, fn := range w.Funcs {
		if isTestFile(w, fn) || fn.Synthetic != "" {
			continue
		}
		p := w.RelPkg(fn)
		if p != "core" && p != "sys" && p != "service" && p != "cron" {
			continue
		}
		counts := map[string]int{}
		allInstrs(fn, func(in ssa.Instruction) {
			c, ok := in.(*ssa.Call)
			if !ok {
				return
			}
			sig := c.Common().Signature()
			eidx := errorResultIndex(sig)
			if eidx < 1 {
				return
			}
			var ptr, errv ssa.Value
			if c.Referrers() == nil {
				return
			}
			for _, ref := range *c.Referrers() {
				if ex, ok := ref.(*ssa.Extract); ok {
					if ex.Index == eidx {
						errv = ex
					} else if _, isPtr := ex.Type().Underlying().(*types.Pointer); isPtr && ptr == nil {
						ptr = ex
					}
				}
			}
			if ptr == nil || errv == nil {
				return
			}
			if f := c.Common().StaticCallee(); f != nil && returnsFresh(f) {
				return // the callee always returns a freshly allocated object, error or not
			}
			n++
			callee := calleeName(c.Common())
			counts[callee]++
			key := "fn=" + fname(fn) + " call=" + callee
			if counts[callee] > 1 {
				key += "#" + itoa(counts[callee])
			}
			// uses of ptr that dereference it
			isDeref := func(x ssa.Instruction) bool {
				switch y := x.(type) {
				case *ssa.FieldAddr:
					return y.X == ptr
				case *ssa.UnOp:
					return y.Op == token.MUL && y.X == ptr
				case ssa.CallInstruction:
					cc := y.Common()
					if cc.IsInvoke() {
						return false
					}
					if f := cc.StaticCallee(); f != nil && f.Signature.Recv() != nil && len(cc.Args) > 0 && cc.Args[0] == ptr {
						// a method on the pointer: dereferences unless it is nil-tolerant; assume it dereferences when it touches a field
						return derefsReceiver(f)
					}
				}
				return false
			}
			bad := ""
			for _, b := range fn.Blocks {
				if len(b.Instrs) == 0 {
					continue
				}
				ifi, ok := b.Instrs[len(b.Instrs)-1].(*ssa.If)
				if !ok {
					continue
				}
				ct, ok := decodeIf(ifi)
				if !ok || resolveSpill(ct.V) != errv && ct.V != errv {
					continue
				}
				var failSucc *ssa.BasicBlock
				if ct.TrueWhen == "nonnil" {
					failSucc = b.Succs[0]
				} else if ct.TrueWhen == "nil" {
					failSucc = b.Succs[1]
				} else {
					continue
				}
				if len(failSucc.Instrs) == 0 {
					continue
				}
				first := failSucc.Instrs[0]
				if isDeref(first) {
					bad = w.PosOf(first)
					continue
				}
				// path-sensitive: do not re-enter the nil edge of another test of the same error
				nilEdges := func(from *ssa.BasicBlock, si int) bool {
					// on this path the pointer is nil: do not take the non-nil edge of a test of it
					if len(from.Instrs) == 0 {
						return true
					}
					if i2, ok := from.Instrs[len(from.Instrs)-1].(*ssa.If); ok {
						if c2, ok := decodeIf(i2); ok && c2.V == ptr {
							if c2.TrueWhen == "nonnil" && si == 0 {
								return false
							}
							if c2.TrueWhen == "nil" && si == 1 {
								return false
							}
						}
						// `p != nil && ...` short-circuits compile to the same shape
					}
					return true
				}
				if h, _ := reachPS(fn, first, isDeref, func(x ssa.Instruction) bool { return x == in }, nilEdges); h != nil {
					// make sure the path did not pass a re-assignment; SSA values are immutable, so ptr is still the failed result
					bad = w.PosOf(h)
				}
			}
			if bad != "" {
				r.violation("NIL-AFTER-ERR", key, bad, "the pointer returned by "+callee+" is dereferenced on a path on which the call reported an error (only logged): nil dereference")
			} else {
				r.ok("NIL-AFTER-ERR", key, w.PosOf(in), "the error branch leaves, or the pointer is not dereferenced after it")
			}
		})
	}
	r.stat("NIL-AFTER-ERR.pointer_error_calls", n)
}

func derefsReceiver(f *ssa.Function) bool {
	if f.Blocks == nil || len(f.Params) == 0 {
		return true
	}
	recv := f.Params[0]
	res := false
	allInstrs(f, func(in ssa.Instruction) {
		switch y := in.(type) {
		case *ssa.FieldAddr:
			if y.X == ssa.Value(recv) {
				res = true
			}
		case *ssa.UnOp:
			if y.Op == token.MUL && y.X == ssa.Value(recv) {
				res = true
			}
		}
	})
	return res
}

// ---- LOCK-DEFER ------------------------------------------------------------------------------------------

func ruleLockDefer(w *World, r *Report) {
	r.Rule("LOCK-DEFER", "a state / location lock that is released by a plain call (not by defer) does not enclose code that can panic or that calls out of rulio's control: a hook (function-valued field), the pattern matcher, the JavaScript engine, or a rulio function with an un-exempted may-panic site; a panic in such a section leaves the lock held and the location blocks forever", 6)
	e := newLocksetEngine(w, guardsStates(w))
	// risky functions
	risky := map[*ssa.Function]string{}
	isExternalCall := func(in ssa.Instruction) string {
		c := callOf(in)
		if c == nil {
			return ""
		}
		if !c.IsInvoke() && c.StaticCallee() == nil {
			if _, isBuiltin := c.Value.(*ssa.Builtin); !isBuiltin {
				// call of a function value: a hook when it is loaded from a field
				if n, f, _, ok := loadedField(c.Value); ok && (n.Obj().Name() == "IndexedState" || n.Obj().Name() == "LinearState") {
					return "hook " + f
				}
			}
		}
		if f := c.StaticCallee(); f != nil && f.Pkg != nil {
			pp := f.Pkg.Pkg.Path()
			if strings.HasPrefix(pp, "github.com/Comcast/sheens") {
				return "matcher " + f.Name()
			}
			if strings.HasPrefix(pp, ottoPath) && (f.Name() == "Run" || f.Name() == "Call") {
				return "JavaScript engine"
			}
		}
		if c.IsInvoke() {
			if n := namedOf(c.Value.Type()); n != nil && n.Obj().Pkg() != nil && n.Obj().Pkg().Path() == modPath+"/core" && n.Obj().Name() == "Matcher" {
				return "matcher (core.Matcher)"
			}
		}
		return ""
	}
	for _, fn := range w.Funcs {
		if isTestFile(w, fn) {
			continue
		}
		var sites []panicSite
		sites = append(sites, uncheckedAsserts(fn)...)
		sites = append(sites, explicitPanics(fn)...)
		sites = append(sites, constIndexSites(fn)...)
		for _, s := range sites {
			k, _ := panicKey(w, s)
			if _, ok := panicExemptions[k]; !ok {
				risky[fn] = "may-panic site at " + w.PosOf(s.In)
			}
		}
		allInstrs(fn, func(in ssa.Instruction) {
			if d := isExternalCall(in); d != "" && risky[fn] == "" {
				risky[fn] = d + " at " + w.PosOf(in)
			}
		})
	}
	for changed := true; changed; {
		changed = false
		for _, fn := range w.Funcs {
			if isTestFile(w, fn) || risky[fn] != "" {
				continue
			}
			allInstrs(fn, func(in ssa.Instruction) {
				if risky[fn] != "" {
					return
				}
				if c := callOf(in); c != nil {
					if f := c.StaticCallee(); f != nil && risky[f] != "" {
						risky[fn] = "calls " + fname(f) + " (" + risky[f] + ")"
						changed = true
					}
				}
			})
		}
	}
	locks := map[string]bool{}
	for _, g := range guardsStates(w) {
		locks[g.Lock] = true
	}
	n := 0
	for _, fn := range w.Funcs {
		if isTestFile(w, fn) || fn.Synthetic != "" {
			continue
		}
		for lock := range locks {
			if !e.inside(fn, lock) {
				continue
			}
			var acq, rel []ssa.Instruction
			deferredRel := false
			allInstrs(fn, func(in ssa.Instruction) {
				if d, ok := in.(*ssa.Defer); ok {
					// a deferred release
					tmp := &ssa.Call{Call: d.Call}
					_ = tmp
					if id, a, _, ok := e.lockOp(&d.Call); ok && !a && id == lock {
						deferredRel = true
					}
					for _, callee := range e.calleesOf(d) {
						if e.analyze(callee, specOf(&d.Call, callee)).Rel[lock] {
							deferredRel = true
						}
					}
					return
				}
				if e.acquires(in, lock) {
					acq = append(acq, in)
				}
				if e.releases(in, lock) {
					rel = append(rel, in)
				}
			})
			if len(acq) == 0 || len(rel) == 0 {
				continue
			}
			// wrappers themselves (slock / sunlock) acquire or release only
			if len(acq) > 0 && len(rel) > 0 {
				n++
				key := "fn=" + fname(fn) + " lock=" + lock
				bad := ""
				for _, a := range acq {
					for _, rl := range rel {
						if !reachable(fn, a, rl) {
							continue
						}
						x := between(fn, a, rl, func(in ssa.Instruction) bool {
							if isExternalCall(in) != "" {
								return true
							}
							if c := callOf(in); c != nil {
								if f := c.StaticCallee(); f != nil && risky[f] != "" {
									return true
								}
							}
							return false
						})
						if x != nil && bad == "" {
							why := isExternalCall(x)
							if why == "" {
								if f := callOf(x).StaticCallee(); f != nil {
									why = "calls " + fname(f) + ": " + risky[f]
								}
							}
							bad = w.PosOf(x) + " (" + why + ")"
						}
					}
				}
				_ = deferredRel
				if bad != "" {
					r.violation("LOCK-DEFER", key, w.Pos(fn.Pos()), "the lock is released by a plain call but the section reaches code that can panic or leaves rulio's control: "+bad)
				} else {
					r.ok("LOCK-DEFER", key, w.Pos(fn.Pos()), "plain-call release, but nothing in the section can panic")
				}
			}
		}
	}
	r.stat("LOCK-DEFER.sections_with_plain_release", n)
}
