package main

// pair.go: PAIR / ATOMIC-SECTION helpers — ordering facts inside one function.

import (
	"fmt"
	"go/token"
	"os"

	"golang.org/x/tools/go/ssa"
)

// mustFollow checks "after every instruction satisfying isA, every path to a function exit passes an
// instruction satisfying isB (a call, or a defer of it registered on the path or before A)".
// It returns the A instructions for which an exit is reachable without B, with a witness.
type pairMiss struct {
	A    ssa.Instruction
	Exit ssa.Instruction
	Path []*ssa.BasicBlock
}

func isExit(in ssa.Instruction) bool {
	switch in.(type) {
	case *ssa.Return:
		return true
	case *ssa.Panic:
		return true
	}
	return false
}

func mustFollow(fn *ssa.Function, isA, isB func(ssa.Instruction) bool) (as int, misses []pairMiss) {
	// a deferred B that dominates A (registered on every path before A) satisfies the pairing
	var deferredB []ssa.Instruction
	allInstrs(fn, func(in ssa.Instruction) {
		if _, ok := in.(*ssa.Defer); ok && isB(in) {
			deferredB = append(deferredB, in)
		}
	})
	dominatedByDeferredB := func(a ssa.Instruction) bool {
		for _, d := range deferredB {
			if instrDominates(d, a) {
				return true
			}
		}
		return false
	}
	allInstrs(fn, func(in ssa.Instruction) {
		if _, isDefer := in.(*ssa.Defer); isDefer || !isA(in) {
			return
		}
		as++
		if dominatedByDeferredB(in) {
			return
		}
		hit, path := reach(fn, in, isExit, isB, nil)
		if hit != nil {
			misses = append(misses, pairMiss{in, hit, path})
		}
	})
	return
}

// instrDominates: a dominates b (same block: earlier index).
func instrDominates(a, b ssa.Instruction) bool {
	ba, bb := a.Block(), b.Block()
	if ba == bb {
		return posOfInstr(a).i < posOfInstr(b).i
	}
	return ba.Dominates(bb)
}

// mustPrecede checks "every path from entry to an instruction satisfying isB passes an instruction
// satisfying isA".  Returns the B instructions reachable from entry without A.
func mustPrecede(fn *ssa.Function, isA, isB func(ssa.Instruction) bool) (bs int, misses []pairMiss) {
	var allB []ssa.Instruction
	allInstrs(fn, func(in ssa.Instruction) {
		if isB(in) {
			allB = append(allB, in)
		}
	})
	bs = len(allB)
	for _, b := range allB {
		b := b
		hit, path := reachPS(fn, nil, func(in ssa.Instruction) bool { return in == b }, isA, nil)
		if hit != nil {
			misses = append(misses, pairMiss{nil, b, path})
		}
	}
	return
}

// between reports an instruction satisfying isX that lies on some path from a to b
// (reachable from a, and b reachable from it).
func between(fn *ssa.Function, a, b ssa.Instruction, isX func(ssa.Instruction) bool) ssa.Instruction {
	var found ssa.Instruction
	allInstrs(fn, func(x ssa.Instruction) {
		if found != nil || x == a || x == b || !isX(x) {
			return
		}
		if h, _ := reach(fn, a, func(in ssa.Instruction) bool { return in == x }, nil, nil); h == nil {
			return
		}
		if h, _ := reach(fn, x, func(in ssa.Instruction) bool { return in == b }, nil, nil); h == nil {
			return
		}
		found = x
	})
	return found
}

// reachable: b is reachable from a inside fn.
func reachable(fn *ssa.Function, a, b ssa.Instruction) bool {
	h, _ := reach(fn, a, func(in ssa.Instruction) bool { return in == b }, nil, nil)
	return h != nil
}

// ---- value dependence -----------------------------------------------------------------------

// dependsOn: does v data-depend (through SSA operands, loads of local slots, and calls' arguments)
// on some value satisfying pred?  Bounded backward slice.
func dependsOn(v ssa.Value, pred func(ssa.Value) bool) bool {
	seen := map[ssa.Value]bool{}
	var rec func(v ssa.Value, d int) bool
	rec = func(v ssa.Value, d int) bool {
		if v == nil || seen[v] || d > 40 {
			return false
		}
		seen[v] = true
		if pred(v) {
			return true
		}
		switch x := v.(type) {
		case *ssa.UnOp:
			if x.Op == token.MUL {
				if a, ok := x.X.(*ssa.Alloc); ok {
					if rec(a, d+1) {
						return true
					}
				}
			}
		case *ssa.Alloc:
			// a pointer to a local variable / locally built object: depends on whatever is stored into it
			for _, ref := range *x.Referrers() {
				switch y := ref.(type) {
				case *ssa.Store:
					if y.Addr == x && rec(y.Val, d+1) {
						return true
					}
				case *ssa.FieldAddr, *ssa.IndexAddr:
					sub := ref.(ssa.Value)
					if sr := sub.Referrers(); sr != nil {
						for _, z := range *sr {
							if st, ok := z.(*ssa.Store); ok && st.Addr == sub && rec(st.Val, d+1) {
								return true
							}
						}
					}
				}
			}
		}
		if in, ok := v.(ssa.Instruction); ok {
			for _, op := range in.Operands(nil) {
				if op != nil && *op != nil && rec(*op, d+1) {
					return true
				}
			}
		}
		return false
	}
	return rec(v, 0)
}

// isFieldLoad: v loads field owner.field (owner = "core.OutboundBreaker").
func isFieldLoad(v ssa.Value, owner, field string) bool {
	n, f, _, ok := loadedField(v)
	return ok && typeKey(n) == owner && f == field
}

// storesToField: in is a Store whose address is &x.field of owner.
func storesToField(in ssa.Instruction, owner, field string) (*ssa.Store, bool) {
	st, ok := in.(*ssa.Store)
	if !ok {
		return nil, false
	}
	n, f, _, ok := fieldOf(st.Addr)
	if ok && typeKey(n) == owner && f == field {
		return st, true
	}
	return nil, false
}

// storesThroughField: in is a Store to an element of the slice / a MapUpdate of the map loaded from owner.field.
func writesThroughField(in ssa.Instruction, owner, field string) bool {
	switch x := in.(type) {
	case *ssa.Store:
		if ia, ok := x.Addr.(*ssa.IndexAddr); ok {
			return isFieldLoad(ia.X, owner, field)
		}
	case *ssa.MapUpdate:
		return isFieldLoad(x.Map, owner, field)
	case ssa.CallInstruction:
		c := x.Common()
		if b, ok := c.Value.(*ssa.Builtin); ok && b.Name() == "delete" && len(c.Args) > 0 {
			return isFieldLoad(c.Args[0], owner, field)
		}
	}
	return false
}

// controlDependsOn: the block of `in` is control dependent on an If whose condition satisfies condPred:
// the block post-dominates one successor of the branch (every path from it to an exit passes the block)
// but not the other.
func controlDependsOn(fn *ssa.Function, in ssa.Instruction, condPred func(ssa.Value) bool) bool {
	target := in.Block()
	for _, b := range fn.Blocks {
		if len(b.Instrs) == 0 || b == target {
			continue
		}
		ifi, ok := b.Instrs[len(b.Instrs)-1].(*ssa.If)
		if !ok || !b.Dominates(target) || !dependsOn(ifi.Cond, condPred) {
			continue
		}
		// the target is reached from exactly one successor of the branch (without coming back through the branch) ...
		r0 := b.Succs[0] == target || blockReaches(b.Succs[0], target, b)
		r1 := b.Succs[1] == target || blockReaches(b.Succs[1], target, b)
		if r0 == r1 {
			// the first operand of a short-circuit `a || b` (or `a && b`): both successors can reach the target, but
			// one of them cannot avoid it (the target post-dominates that successor and not the branch): classical
			// control dependence
			pd := func(s *ssa.BasicBlock) bool { return s == target || !exitReachableAvoiding(s, target) }
			if r0 && (pd(b.Succs[0]) != pd(b.Succs[1])) && exitReachableAvoiding(b, target) {
				return true
			}
			continue
		}
		// ... and it is not simply what follows the branch on every path (e.g. the block after a loop)
		if !exitReachableAvoiding(b, target) {
			continue
		}
		return true
	}
	return false
}

// controlDependsOnIf: as controlDependsOn, with a predicate on the branch instruction itself.
func controlDependsOnIf(fn *ssa.Function, in ssa.Instruction, pred func(*ssa.If) bool) bool {
	target := in.Block()
	for _, b := range fn.Blocks {
		if len(b.Instrs) == 0 || b == target {
			continue
		}
		ifi, ok := b.Instrs[len(b.Instrs)-1].(*ssa.If)
		if !ok || !b.Dominates(target) || !pred(ifi) {
			continue
		}
		r0 := b.Succs[0] == target || blockReaches(b.Succs[0], target, b)
		r1 := b.Succs[1] == target || blockReaches(b.Succs[1], target, b)
		if r0 == r1 {
			continue
		}
		if !exitReachableAvoiding(b, target) {
			continue
		}
		return true
	}
	return false
}

// exitReachableAvoiding: some path from start reaches a block ending in Return/Panic without entering avoid.
func exitReachableAvoiding(start, avoid *ssa.BasicBlock) bool {
	if start == avoid {
		return false
	}
	seen := map[*ssa.BasicBlock]bool{avoid: true}
	stack := []*ssa.BasicBlock{start}
	for len(stack) > 0 {
		b := stack[len(stack)-1]
		stack = stack[:len(stack)-1]
		if seen[b] {
			continue
		}
		seen[b] = true
		if len(b.Instrs) > 0 && isExit(b.Instrs[len(b.Instrs)-1]) {
			return true
		}
		stack = append(stack, b.Succs...)
	}
	return false
}

// blockReaches: target reachable from start without passing through block `avoid` (may be nil).
func blockReaches(start, target, avoid *ssa.BasicBlock) bool {
	seen := map[*ssa.BasicBlock]bool{}
	if avoid != nil {
		seen[avoid] = true
	}
	stack := []*ssa.BasicBlock{start}
	for len(stack) > 0 {
		b := stack[len(stack)-1]
		stack = stack[:len(stack)-1]
		if b == target {
			return true
		}
		if seen[b] {
			continue
		}
		seen[b] = true
		stack = append(stack, b.Succs...)
	}
	return false
}

// dependsOnFS: dependsOn, but a load from a local slot only depends on the stores that can reach the load
// (a copy taken before a loop does not depend on what the loop stores into the variable later).
func dependsOnFS(v ssa.Value, pred func(ssa.Value) bool) bool {
	seen := map[ssa.Value]bool{}
	var rec func(v ssa.Value, d int) bool
	storesInto := func(a *ssa.Alloc, at ssa.Instruction, d int) bool {
		for _, ref := range *a.Referrers() {
			switch y := ref.(type) {
			case *ssa.Store:
				if y.Addr == ssa.Value(a) && (at == nil || reachable(a.Parent(), y, at)) && rec(y.Val, d+1) {
					return true
				}
			case *ssa.FieldAddr, *ssa.IndexAddr:
				sub := ref.(ssa.Value)
				if sr := sub.Referrers(); sr != nil {
					for _, z := range *sr {
						if st, ok := z.(*ssa.Store); ok && st.Addr == sub && (at == nil || reachable(a.Parent(), st, at)) && rec(st.Val, d+1) {
							return true
						}
					}
				}
			}
		}
		return false
	}
	rec = func(v ssa.Value, d int) bool {
		if v == nil || seen[v] || d > 40 {
			return false
		}
		seen[v] = true
		if pred(v) {
			return true
		}
		switch x := v.(type) {
		case *ssa.UnOp:
			if x.Op == token.MUL {
				if a, ok := x.X.(*ssa.Alloc); ok {
					return storesInto(a, x, d)
				}
			}
		case *ssa.Alloc:
			return storesInto(x, nil, d)
		}
		if in, ok := v.(ssa.Instruction); ok {
			for _, op := range in.Operands(nil) {
				if op != nil && *op != nil && rec(*op, d+1) {
					return true
				}
			}
		}
		return false
	}
	return rec(v, 0)
}

// controlDependsOnClassic: classical (Ferrante–Ottenstein–Warren) control dependence, transitively: the block of `in`
// post-dominates one successor of a branch whose condition satisfies condPred and not the other — whether or not the
// branch dominates the block (the second operand of `a && b` guarding an else branch does not) — or it is so
// dependent on a block that is.  Only the exits accepted by countsAsExit count (nil: all): with the refusals left
// out, code after `if c { return err }` does not depend on c.
func controlDependsOnClassic(fn *ssa.Function, in ssa.Instruction, condPred func(ssa.Value) bool, countsAsExit func(ssa.Instruction) bool) bool {
	exitAvoiding := func(start, avoid *ssa.BasicBlock) bool {
		if start == avoid {
			return false
		}
		seen := map[*ssa.BasicBlock]bool{avoid: true}
		stack := []*ssa.BasicBlock{start}
		for len(stack) > 0 {
			b := stack[len(stack)-1]
			stack = stack[:len(stack)-1]
			if seen[b] {
				continue
			}
			seen[b] = true
			if len(b.Instrs) > 0 {
				if last := b.Instrs[len(b.Instrs)-1]; isExit(last) && (countsAsExit == nil || countsAsExit(last)) {
					return true
				}
			}
			stack = append(stack, b.Succs...)
		}
		return false
	}
	if os.Getenv("RULINT_DEBUG_CD") != "" && countsAsExit != nil {
		for _, b := range fn.Blocks {
			if len(b.Instrs) > 0 {
				if last := b.Instrs[len(b.Instrs)-1]; isExit(last) {
					fmt.Fprintf(os.Stderr, "CD-EXIT block %d %s counts=%v\n", b.Index, fn.Prog.Fset.Position(last.Pos()), countsAsExit(last))
				}
			}
		}
	}
	seen := map[*ssa.BasicBlock]bool{}
	var dep func(target *ssa.BasicBlock) bool
	dep = func(target *ssa.BasicBlock) bool {
		if seen[target] {
			return false
		}
		seen[target] = true
		for _, b := range fn.Blocks {
			if len(b.Instrs) == 0 || b == target {
				continue
			}
			ifi, ok := b.Instrs[len(b.Instrs)-1].(*ssa.If)
			if !ok {
				continue
			}
			pd := func(s *ssa.BasicBlock) bool { return s == target || !exitAvoiding(s, target) }
			r0 := b.Succs[0] == target || blockReaches(b.Succs[0], target, nil)
			r1 := b.Succs[1] == target || blockReaches(b.Succs[1], target, nil)
			if (!r0 && !r1) || pd(b.Succs[0]) == pd(b.Succs[1]) {
				continue
			}
			// a successor from which only exits that do not count are reachable (a refusal) decides nothing
			if (!r0 && !exitAvoiding(b.Succs[0], target)) || (!r1 && !exitAvoiding(b.Succs[1], target)) {
				continue
			}
			if dependsOn(ifi.Cond, condPred) || dep(b) {
				if os.Getenv("RULINT_DEBUG_CD") != "" {
					fmt.Fprintf(os.Stderr, "CD: block %d depends on branch in block %d (%s)\n", target.Index, b.Index, fn.Prog.Fset.Position(ifi.Cond.Pos()))
				}
				return true
			}
		}
		return false
	}
	return dep(in.Block())
}
