package main

// loops.go: natural loops of a function's CFG, pattern matchers for three loop/slice idioms, and the fixture
// loader that gives every zero-instance rule a positive example on every run.

import (
	"fmt"
	"go/token"
	"go/types"
	"os"
	"path/filepath"

	"golang.org/x/tools/go/packages"
	"golang.org/x/tools/go/ssa"
	"golang.org/x/tools/go/ssa/ssautil"
)

type natLoop struct {
	Header *ssa.BasicBlock
	Body   map[*ssa.BasicBlock]bool // includes the header
}

// naturalLoops: one loop per header h that has a back edge b -> h with h dominating b; the body is every
// block that reaches a back-edge source without passing h.
func naturalLoops(fn *ssa.Function) []*natLoop {
	byHeader := map[*ssa.BasicBlock]*natLoop{}
	var order []*ssa.BasicBlock
	for _, b := range fn.Blocks {
		for _, s := range b.Succs {
			if s.Dominates(b) { // back edge b -> s
				l := byHeader[s]
				if l == nil {
					l = &natLoop{Header: s, Body: map[*ssa.BasicBlock]bool{s: true}}
					byHeader[s] = l
					order = append(order, s)
				}
				stack := []*ssa.BasicBlock{b}
				for len(stack) > 0 {
					x := stack[len(stack)-1]
					stack = stack[:len(stack)-1]
					if l.Body[x] {
						continue
					}
					l.Body[x] = true
					stack = append(stack, x.Preds...)
				}
			}
		}
	}
	var out []*natLoop
	for _, h := range order {
		out = append(out, byHeader[h])
	}
	return out
}

// innermostLoop containing block b (smallest body), or nil.
func innermostLoop(loops []*natLoop, b *ssa.BasicBlock) *natLoop {
	var best *natLoop
	for _, l := range loops {
		if l.Body[b] && (best == nil || len(l.Body) < len(best.Body)) {
			best = l
		}
	}
	return best
}

// successReachableFrom: can a success return (or any return of a function without error result) be reached
// from block s without entering `avoid`?
func successReachableFrom(s *ssa.BasicBlock, avoid map[*ssa.BasicBlock]bool) bool {
	seen := map[*ssa.BasicBlock]bool{}
	stack := []*ssa.BasicBlock{s}
	for len(stack) > 0 {
		b := stack[len(stack)-1]
		stack = stack[:len(stack)-1]
		if seen[b] || avoid[b] {
			continue
		}
		seen[b] = true
		if len(b.Instrs) > 0 {
			if isSuccessReturnPS(b.Instrs[len(b.Instrs)-1]) {
				return true
			}
		}
		stack = append(stack, b.Succs...)
	}
	return false
}

// loopEarlyExits: edges that leave the loop from a block other than the header and from which the function
// can still complete successfully (a `break`, or a success `return` inside the loop).  Error returns are not
// early exits in this sense.
type loopExit struct {
	From *ssa.BasicBlock
	Succ int
}

func loopEarlyExits(l *natLoop) []loopExit {
	var out []loopExit
	for b := range l.Body {
		if b == l.Header {
			continue
		}
		for si, s := range b.Succs {
			if !l.Body[s] && successReachableFrom(s, nil) {
				out = append(out, loopExit{b, si})
			}
		}
		if len(b.Succs) == 0 && len(b.Instrs) > 0 && isSuccessReturnPS(b.Instrs[len(b.Instrs)-1]) {
			out = append(out, loopExit{b, -1})
		}
	}
	// deterministic order
	for i := 0; i < len(out); i++ {
		for j := i + 1; j < len(out); j++ {
			if out[j].From.Index < out[i].From.Index || (out[j].From.Index == out[i].From.Index && out[j].Succ < out[i].Succ) {
				out[i], out[j] = out[j], out[i]
			}
		}
	}
	return out
}

func isBuiltinCall(in ssa.Instruction, name string) (*ssa.Call, bool) {
	c, ok := in.(*ssa.Call)
	if !ok {
		return nil, false
	}
	b, ok := c.Common().Value.(*ssa.Builtin)
	if !ok || b.Name() != name {
		return nil, false
	}
	return c, true
}

// appendedElems: the element values of append(s, e1, e2...) (varargs array stores), or nil for append(s, t...).
func appendedElems(c *ssa.Call) []ssa.Value {
	if len(c.Call.Args) != 2 {
		return nil
	}
	sl, ok := c.Call.Args[1].(*ssa.Slice)
	if !ok {
		return nil
	}
	a, ok := sl.X.(*ssa.Alloc)
	if !ok {
		return nil
	}
	var out []ssa.Value
	for _, ref := range *a.Referrers() {
		if ia, ok := ref.(*ssa.IndexAddr); ok {
			for _, r2 := range *ia.Referrers() {
				if st, ok := r2.(*ssa.Store); ok && st.Addr == ia {
					out = append(out, st.Val)
				}
			}
		}
	}
	return out
}

// addrKey: a canonical name for an address expression made of field/index selections on SSA values.
func addrKey(v ssa.Value) string {
	switch x := v.(type) {
	case *ssa.FieldAddr:
		return fmt.Sprintf("%s.#%d", addrKey(x.X), x.Field)
	case *ssa.UnOp:
		if x.Op == token.MUL {
			return "*" + addrKey(x.X)
		}
	}
	return fmt.Sprintf("%s@%p", v.Name(), v)
}

// sliceBaseKey: identity of the slice a Slice/IndexAddr instruction works on: the SSA value itself, or the
// address it was loaded from.
func sliceBaseKey(v ssa.Value) string {
	if u, ok := v.(*ssa.UnOp); ok && u.Op == token.MUL {
		return "load:" + addrKey(u.X)
	}
	return "val:" + addrKey(v)
}

// findAppendClobber: append(b[:h], x...) writes b's backing array from index h on; a later read of b's tail
// (b[l:] with the same base and no store to the base in between) sees the clobbered elements.
func findAppendClobber(fn *ssa.Function) []ssa.Instruction {
	var out []ssa.Instruction
	allInstrs(fn, func(in ssa.Instruction) {
		c, ok := isBuiltinCall(in, "append")
		if !ok || len(c.Call.Args) == 0 {
			return
		}
		s, ok := c.Call.Args[0].(*ssa.Slice)
		if !ok || s.High == nil || s.Max != nil {
			return
		}
		if _, isSlice := s.X.Type().Underlying().(*types.Slice); !isSlice {
			return
		}
		base := sliceBaseKey(s.X)
		isTailRead := func(x ssa.Instruction) bool {
			s2, ok := x.(*ssa.Slice)
			if !ok || s2.Low == nil || ssa.Instruction(s2) == ssa.Instruction(s) {
				return false
			}
			return sliceBaseKey(s2.X) == base
		}
		isBaseStore := func(x ssa.Instruction) bool {
			st, ok := x.(*ssa.Store)
			return ok && "load:"+addrKey(st.Addr) == base
		}
		if h, _ := reach(fn, in, isTailRead, isBaseStore, nil); h != nil {
			out = append(out, in)
			return
		}
		// a tail that was sliced off *before* this append and is used after it aliases the same backing array
		// (`rest := b[at:]; ... append(append(b[:at], x), rest...)`); the operands of this append itself are
		// exempt (append(b[:i], b[i+1:]...) is the delete idiom: memmove handles the overlap)
		var tails []*ssa.Slice
		allInstrs(fn, func(x ssa.Instruction) {
			s2, ok := x.(*ssa.Slice)
			if !ok || s2.Low == nil || ssa.Instruction(s2) == ssa.Instruction(s) || sliceBaseKey(s2.X) != base {
				return
			}
			if !reachable(fn, x, in) {
				return
			}
			// no store to the base between the slicing and the append
			if y := between(fn, x, in, isBaseStore); y != nil {
				return
			}
			tails = append(tails, s2)
		})
		for _, t := range tails {
			usesTail := func(x ssa.Instruction) bool {
				if x == in {
					return false
				}
				for _, op := range x.Operands(nil) {
					if op != nil && *op == ssa.Value(t) {
						return true
					}
				}
				return false
			}
			if h, _ := reach(fn, in, usesTail, nil, nil); h != nil {
				out = append(out, in)
				return
			}
		}
	})
	return out
}

// findLoopAlias: inside a loop an object of reference type that was allocated outside the loop is both
// written and appended to a list: every appended entry is the same object.
func findLoopAlias(fn *ssa.Function) []ssa.Instruction {
	var out []ssa.Instruction
	loops := naturalLoops(fn)
	if len(loops) == 0 {
		return nil
	}
	allocRootOf := func(v ssa.Value) ssa.Value {
		for i := 0; i < 8; i++ {
			switch x := v.(type) {
			case *ssa.ChangeType:
				v = x.X
			case *ssa.MakeInterface:
				v = x.X
			case *ssa.Convert:
				v = x.X
			default:
				return v
			}
		}
		return v
	}
	allInstrs(fn, func(in ssa.Instruction) {
		c, ok := isBuiltinCall(in, "append")
		if !ok {
			return
		}
		for _, e := range appendedElems(c) {
			root := allocRootOf(e)
			var defBlock *ssa.BasicBlock
			switch x := root.(type) {
			case *ssa.MakeMap:
				defBlock = x.Block()
			case *ssa.MakeSlice:
				defBlock = x.Block()
			case *ssa.Alloc:
				if x.Heap {
					defBlock = x.Block()
				}
			}
			if defBlock == nil {
				continue
			}
			for _, l := range loops {
				if !l.Body[in.Block()] || l.Body[defBlock] {
					continue
				}
				// written inside the loop?
				written := false
				for b := range l.Body {
					for _, x := range b.Instrs {
						switch y := x.(type) {
						case *ssa.MapUpdate:
							if y.Map == root {
								written = true
							}
						case *ssa.Store:
							if addrRoot(y.Addr) == root {
								written = true
							}
						}
					}
				}
				if written {
					out = append(out, in)
					break
				}
			}
		}
	})
	return out
}

// findCopyIntoEmpty: copy(dst, src) where dst was made with a constant length 0 (and is not re-sliced): a no-op.
func findCopyIntoEmpty(fn *ssa.Function) []ssa.Instruction {
	var out []ssa.Instruction
	allInstrs(fn, func(in ssa.Instruction) {
		c, ok := isBuiltinCall(in, "copy")
		if !ok || len(c.Call.Args) != 2 {
			return
		}
		ms, ok := c.Call.Args[0].(*ssa.MakeSlice)
		if !ok {
			return
		}
		if k, ok := ms.Len.(*ssa.Const); ok && k.Value != nil && k.Int64() == 0 {
			out = append(out, in)
		}
	})
	return out
}

// ---- fixtures ------------------------------------------------------------------------------------

var fixtureFuncs map[string]*ssa.Function

func fixturesRoot() string {
	if d := os.Getenv("VERIF_DIR"); d != "" {
		// the scratch copies used by the matrix only hold known_findings.txt: the fixtures live with the checker
		if _, err := os.Stat(filepath.Join(d, "rulint", "fixtures")); err == nil {
			return d
		}
	}
	return "/verif"
}

// fixture returns the SSA function `name` ("LoopAlias", "Timeline.AppendClobber") of package patterns.
func fixture(name string) *ssa.Function {
	if fixtureFuncs == nil {
		fixtureFuncs = map[string]*ssa.Function{}
		cfg := &packages.Config{
			Mode: packages.LoadAllSyntax,
			Dir:  filepath.Join(fixturesRoot(), "rulint"),
			Env:  append(os.Environ(), "GOFLAGS=-mod=mod", "GOPROXY=off", "GOSUMDB=off", "GOTOOLCHAIN=local", "GOWORK=off"),
		}
		pkgs, err := packages.Load(cfg, "./fixtures/patterns")
		if err != nil || len(pkgs) != 1 || len(pkgs[0].Errors) > 0 {
			undecided("fixtures: cannot load ./fixtures/patterns: %v", err)
		}
		prog, spkgs := ssautil.AllPackages(pkgs, 0)
		prog.Build()
		if spkgs[0] == nil {
			undecided("fixtures: no SSA")
		}
		for _, m := range spkgs[0].Members {
			switch x := m.(type) {
			case *ssa.Function:
				fixtureFuncs[x.Name()] = x
			case *ssa.Type:
				for _, t := range []types.Type{x.Type(), types.NewPointer(x.Type())} {
					ms := prog.MethodSets.MethodSet(t)
					for i := 0; i < ms.Len(); i++ {
						if f := prog.MethodValue(ms.At(i)); f != nil && f.Synthetic == "" {
							fixtureFuncs[x.Name()+"."+f.Name()] = f
						}
					}
				}
			}
		}
	}
	f := fixtureFuncs[name]
	if f == nil {
		undecided("fixtures: function %s not found", name)
	}
	return f
}

// selfTest: a matcher must fire on its positive example and stay silent on the negative ones.
func selfTest(r *Report, rule string, match func(*ssa.Function) int, positive []string, negative []string) {
	for _, p := range positive {
		if match(fixture(p)) == 0 {
			undecided("%s: self-test failed: the matcher no longer fires on fixtures/patterns.%s", rule, p)
		}
	}
	for _, n := range negative {
		if match(fixture(n)) != 0 {
			undecided("%s: self-test failed: the matcher fires on the correct idiom fixtures/patterns.%s", rule, n)
		}
	}
	r.ok(rule, "self-test fixtures/patterns", "rulint/fixtures/patterns/patterns.go", fmt.Sprintf("fires on %v, silent on %v", positive, negative))
}
