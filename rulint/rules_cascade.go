package main

// rules_cascade.go: C08 — deleteWith cascades (CASC-CALL, CASC-ORDER, CASC-SEARCH, PROP-DW, RULE-DW).

import (
	"go/types"

	"golang.org/x/tools/go/ssa"
)

// neverFails: under the constant arguments of this call the callee cannot return a non-nil error
// (branches on constant-specialised bool parameters are pruned).
func neverFails(w *World, c *ssa.Call) bool {
	f := c.Common().StaticCallee()
	if f == nil || f.Blocks == nil {
		return false
	}
	idx := errorResultIndex(f.Signature)
	if idx < 0 {
		return true
	}
	e := newLocksetEngine(w, nil)
	ef := e.pruner(f, specOf(c.Common(), f))
	reachable := blocksReachable(f, ef)
	ok := true
	for _, b := range f.Blocks {
		if !reachable[b] {
			continue
		}
		for _, in := range b.Instrs {
			if ret, isRet := in.(*ssa.Return); isRet && idx < len(ret.Results) {
				if !isNilConst(resolveSpill(ret.Results[idx])) {
					ok = false
				}
			}
		}
	}
	return ok
}

// infeasibleErrEdges deletes the `err != nil` edges of calls that cannot fail under their constant arguments.
func infeasibleErrEdges(w *World, fn *ssa.Function) edgeFilter {
	type edge struct {
		b *ssa.BasicBlock
		i int
	}
	del := map[edge]bool{}
	for _, b := range fn.Blocks {
		if len(b.Instrs) == 0 {
			continue
		}
		ifi, ok := b.Instrs[len(b.Instrs)-1].(*ssa.If)
		if !ok {
			continue
		}
		ct, ok := decodeIf(ifi)
		if !ok || (ct.TrueWhen != "nil" && ct.TrueWhen != "nonnil") {
			continue
		}
		ex, ok := ct.V.(*ssa.Extract)
		if !ok {
			continue
		}
		c, ok := ex.Tuple.(*ssa.Call)
		if !ok || ex.Index != errorResultIndex(c.Common().Signature()) {
			continue
		}
		if neverFails(w, c) {
			if ct.TrueWhen == "nonnil" {
				del[edge{b, 0}] = true
			} else {
				del[edge{b, 1}] = true
			}
		}
	}
	return func(from *ssa.BasicBlock, si int) bool { return !del[edge{from, si}] }
}

func ruleCascade(w *World, r *Report) {
	r.Rule("CASC-CALL", "in every State implementation every success return of the removal primitive (the function that deletes an id from the fact map) lies behind a call to that state's deleteDependencies for the same id (whether or not the id had a fact of its own: dangling targets and retries after a storage fault cascade too)", 2)
	r.Rule("CASC-ORDER", "deleteDependencies is reached only after the id has left the fact map (on the edges on which it was present), so the mutual recursion rem <-> deleteDependencies strictly shrinks the map: cascades terminate on cycles and self-loops", 2)
	r.Rule("CASC-SEARCH", "deleteDependencies removes exactly the ids returned by the re-matching search (a same-type function that calls core.Matches) for the pattern {deleteWith: [id]}: the candidates of the term index alone would over-delete", 2)
	a := newLocAnchors(w)
	matches := w.Func("core", "Matches")
	for n := range a.stateImp {
		owner := typeKey(n)
		ff := stateFactField[owner]
		var rem, dd *ssa.Function
		for _, fn := range w.MethodsOf(n) {
			if fn.Name() == "deleteDependencies" {
				dd = fn
			}
		}
		callsDD := func(fn *ssa.Function) bool {
			yes := false
			allInstrs(fn, func(in ssa.Instruction) {
				if c := callOf(in); c != nil && dd != nil && c.StaticCallee() == dd {
					yes = true
				}
			})
			return yes
		}
		// a function that deletes from the fact map and does not cascade itself is a helper (`drop`, which also keeps
		// a counter or a reverse index in step): the removal primitive is the function that calls it and cascades
		delHelper := map[*ssa.Function]bool{}
		for _, fn := range w.MethodsOf(n) {
			direct := false
			allInstrs(fn, func(in ssa.Instruction) {
				if c := callOf(in); c != nil {
					if b, ok := c.Value.(*ssa.Builtin); ok && b.Name() == "delete" && len(c.Args) == 2 && isFieldLoad(c.Args[0], owner, ff) {
						direct = true
					}
				}
			})
			if !direct {
				continue
			}
			cands := []*ssa.Function{fn}
			if !callsDD(fn) {
				var up []*ssa.Function
				for _, e := range w.Callers(fn) {
					cf := e.Caller.Func
					if cf == nil || isTestFile(w, cf) {
						continue
					}
					if o2, ok := stateOwnerOf(a, cf); ok && o2 == owner && callsDD(cf) {
						up = append(up, cf)
					}
				}
				if len(up) > 0 {
					delHelper[fn] = true
					cands = up
				}
			}
			for _, c := range cands {
				if rem != nil && rem != c {
					undecided("CASC: %s has more than one function that deletes from %s (%s, %s)", owner, ff, fname(rem), fname(c))
				}
				rem = c
			}
		}
		if rem == nil || dd == nil {
			undecided("CASC: removal primitive or deleteDependencies not found for %s", owner)
		}
		idIdx := idParamIndex(rem)
		isDD := func(in ssa.Instruction) bool {
			c := callOf(in)
			if c == nil || c.StaticCallee() != dd {
				return false
			}
			if _, isDefer := in.(*ssa.Defer); isDefer {
				return false
			}
			k := idParamIndex(dd)
			return idIdx >= 0 && k >= 0 && k < len(c.Args) && c.Args[k] == ssa.Value(rem.Params[idIdx])
		}
		// CASC-CALL
		ef := infeasibleErrEdges(w, rem)
		key := "fn=" + fname(rem)
		if h, path := reachPSA(rem, nil, isSuccessReturn, isDD, ef); h != nil {
			r.violation("CASC-CALL", key, w.PosOf(h), "the removal primitive can return success without having cascaded to the dependents of the id", blockPathString(w, path)...)
		} else {
			r.ok("CASC-CALL", key, w.Pos(rem.Pos()), "every success return lies behind deleteDependencies(id)")
		}
		// CASC-ORDER: on present-edges, delete precedes the cascade
		type edge struct {
			b *ssa.BasicBlock
			i int
		}
		delAbsent := map[edge]bool{}
		for _, b := range rem.Blocks {
			if len(b.Instrs) == 0 {
				continue
			}
			if ifi, ok := b.Instrs[len(b.Instrs)-1].(*ssa.If); ok {
				if ct, ok := decodeIf(ifi); ok {
					if ex, ok := ct.V.(*ssa.Extract); ok && ex.Index == 1 {
						if lk, ok := ex.Tuple.(*ssa.Lookup); ok && lk.CommaOk && isFieldLoad(lk.X, owner, ff) {
							if ct.TrueWhen == "true" {
								delAbsent[edge{b, 1}] = true
							} else if ct.TrueWhen == "false" {
								delAbsent[edge{b, 0}] = true
							}
						}
					}
				}
			}
		}
		efo := func(from *ssa.BasicBlock, si int) bool { return !delAbsent[edge{from, si}] && ef(from, si) }
		isDel := func(in ssa.Instruction) bool {
			c := callOf(in)
			if c == nil {
				return false
			}
			if f := c.StaticCallee(); f != nil && delHelper[f] {
				return true
			}
			b, ok := c.Value.(*ssa.Builtin)
			return ok && b.Name() == "delete" && len(c.Args) == 2 && isFieldLoad(c.Args[0], owner, ff)
		}
		if h, path := reach(rem, nil, isDD, isDel, efo); h != nil {
			r.violation("CASC-ORDER", key, w.PosOf(h), "deleteDependencies can run while the id is still in the fact map: a dependency cycle recurses forever", blockPathString(w, path)...)
		} else {
			r.ok("CASC-ORDER", key, w.Pos(rem.Pos()), "the id leaves the map before the cascade")
		}
		// CASC-SEARCH
		rematching := map[*ssa.Function]bool{}
		for _, fn := range w.MethodsOf(n) {
			allInstrs(fn, func(in ssa.Instruction) {
				if c := callOf(in); c != nil && c.StaticCallee() == matches {
					rematching[fn] = true
				}
			})
		}
		dkey := "fn=" + fname(dd)
		nrem := 0
		bad := ""
		allInstrs(dd, func(in ssa.Instruction) {
			c := callOf(in)
			if c == nil || c.StaticCallee() != rem {
				return
			}
			nrem++
			k := idParamIndex(rem)
			if k < 0 || k >= len(c.Args) {
				return
			}
			fromSearch := dependsOn(c.Args[k], func(v ssa.Value) bool {
				call, ok := v.(*ssa.Call)
				if !ok {
					return false
				}
				f := call.Common().StaticCallee()
				if f == nil || !rematching[f] {
					return false
				}
				// the pattern argument mentions deleteWith and the id
				for _, arg := range call.Common().Args {
					if _, isMap := arg.Type().Underlying().(*types.Map); !isMap {
						continue
					}
					hasKey := false
					dependsOn(arg, func(x ssa.Value) bool { return false })
					if mm, ok := arg.(*ssa.MakeMap); ok {
						for _, ref := range *mm.Referrers() {
							if mu, ok := ref.(*ssa.MapUpdate); ok {
								if s, ok := constKey(mu.Key); ok && s == "deleteWith" && dependsOn(mu.Value, func(x ssa.Value) bool { return x == ssa.Value(dd.Params[idParamIndex(dd)]) }) {
									hasKey = true
								}
							}
						}
					} else if ct, ok := arg.(*ssa.ChangeType); ok {
						if mm, ok := ct.X.(*ssa.MakeMap); ok {
							for _, ref := range *mm.Referrers() {
								if mu, ok := ref.(*ssa.MapUpdate); ok {
									if s, ok := constKey(mu.Key); ok && s == "deleteWith" && dependsOn(mu.Value, func(x ssa.Value) bool { return x == ssa.Value(dd.Params[idParamIndex(dd)]) }) {
										hasKey = true
									}
								}
							}
						}
					}
					if hasKey {
						return true
					}
				}
				return false
			})
			if !fromSearch {
				bad = w.PosOf(in)
			}
		})
		if nrem == 0 {
			r.violation("CASC-SEARCH", dkey, w.Pos(dd.Pos()), "deleteDependencies no longer removes dependents through the removal primitive")
		} else if bad != "" {
			r.violation("CASC-SEARCH", dkey, bad, "the ids removed by the cascade do not come from a re-matching search for {deleteWith:[id]}")
		} else {
			r.ok("CASC-SEARCH", dkey, w.Pos(dd.Pos()), "dependents come from the re-matching search for {deleteWith:[id]}")
		}
	}
}

// PROP-DW / RULE-DW
func ruleDeleteWithProvenance(w *World, r *Report) {
	r.Rule("PROP-DW", "core.SetProp builds a fact whose `deleteWith` is a list with the target id among its elements (a property dies with its target; the cascade looks for {\"deleteWith\":[id]}, which neither a scalar nor a list of something else matches)", 1)
	r.Rule("RULE-DW", "Location.AddRule copies the rule's `deleteWith` to the stored wrapper fact (a rule dies with what it names)", 1)
	sp := w.Func("core", "SetProp")
	idp := sp.Params[idParamIndex(sp)]
	ok := false
	allInstrs(sp, func(in ssa.Instruction) {
		if mu, isMU := in.(*ssa.MapUpdate); isMU {
			if s, isC := constKey(mu.Key); isC && s == "deleteWith" {
				// a list (the cascade searches for {"deleteWith":[id]}, which a scalar does not match) one of whose
				// elements is the target id
				v := mu.Value
				if mi, isMI := v.(*ssa.MakeInterface); isMI {
					v = mi.X
				}
				if _, isSlice := v.Type().Underlying().(*types.Slice); isSlice {
					if sl, isSl := v.(*ssa.Slice); isSl {
						if al, isAl := sl.X.(*ssa.Alloc); isAl {
							for _, ref := range *al.Referrers() {
								if ia, isIA := ref.(*ssa.IndexAddr); isIA {
									for _, r2 := range *ia.Referrers() {
										if st, isSt := r2.(*ssa.Store); isSt && st.Addr == ssa.Value(ia) && dependsOn(st.Val, func(x ssa.Value) bool { return x == ssa.Value(idp) }) {
											ok = true
										}
									}
								}
							}
						}
					} else if dependsOn(v, func(x ssa.Value) bool { return x == ssa.Value(idp) }) {
						ok = true
					}
				}
			}
		}
	})
	if ok {
		r.ok("PROP-DW", "fn="+fname(sp), w.Pos(sp.Pos()), "the property fact names its target in deleteWith")
	} else {
		r.violation("PROP-DW", "fn="+fname(sp), w.Pos(sp.Pos()), "SetProp does not write a list containing the target id under deleteWith: properties (for example a rule's `disabled` flag) outlive their target, and a rule re-added under the id is born disabled")
	}
	ar := w.Method("core", "Location", "AddRule")
	ruleParam := ar.Params[3]
	ok = false
	allInstrs(ar, func(in ssa.Instruction) {
		if mu, isMU := in.(*ssa.MapUpdate); isMU {
			if s, isC := constKey(mu.Key); isC && s == "deleteWith" {
				if dependsOn(mu.Value, func(x ssa.Value) bool {
					lk, isLk := x.(*ssa.Lookup)
					if !isLk {
						return false
					}
					k, isC := constKey(lk.Index)
					return isC && k == "deleteWith" && dependsOn(lk.X, func(y ssa.Value) bool { return valueIs(y, ruleParam) || y == ssa.Value(ruleParam) })
				}) {
					ok = true
				}
			}
		}
	})
	// ... and it is lifted whenever the rule has one: from the lookup of the rule's deleteWith, with the `not given`
	// edge of a comma-ok lookup deleted, every path to the state's Add passes the wrapper's map update (a type test
	// in between would drop the deleteWith of rules built by scripts or by Go callers, which arrive as []string)
	if ok {
		var lk *ssa.Lookup
		allInstrs(ar, func(in ssa.Instruction) {
			if l, isLk := in.(*ssa.Lookup); isLk && lk == nil {
				if k, isC := constKey(l.Index); isC && k == "deleteWith" && dependsOn(l.X, func(y ssa.Value) bool { return valueIs(y, ruleParam) || y == ssa.Value(ruleParam) }) {
					lk = l
				}
			}
		})
		if lk != nil {
			del := map[bedge]bool{}
			for _, b := range ar.Blocks {
				if len(b.Instrs) == 0 {
					continue
				}
				ifi, isIf := b.Instrs[len(b.Instrs)-1].(*ssa.If)
				if !isIf {
					continue
				}
				ct, okd := decodeIf(ifi)
				if !okd {
					continue
				}
				if ex, isEx := ct.V.(*ssa.Extract); isEx && ex.Tuple == ssa.Value(lk) && ex.Index == 1 {
					if ct.TrueWhen == "true" {
						del[bedge{b, 1}] = true
					} else if ct.TrueWhen == "false" {
						del[bedge{b, 0}] = true
					}
				}
			}
			a2 := newLocAnchors(w)
			isAdd := func(in ssa.Instruction) bool {
				_, is := a2.stateCall(in, map[string]bool{"Add": true})
				return is
			}
			isLift := func(in ssa.Instruction) bool {
				mu, isMU := in.(*ssa.MapUpdate)
				if !isMU {
					return false
				}
				s, isC := constKey(mu.Key)
				return isC && s == "deleteWith"
			}
			if h, _ := reach(ar, lk, isAdd, isLift, edgeFilterOf(del)); h != nil {
				ok = false
				r.violation("RULE-DW", "fn="+fname(ar), w.PosOf(h), "a rule that has a deleteWith can be stored without it being lifted to the wrapper (the lifting depends on more than the presence of the key, e.g. on its Go type): such a rule is no dependent of what it names and survives its deletion")
				return
			}
		}
	}
	if ok {
		r.ok("RULE-DW", "fn="+fname(ar), w.Pos(ar.Pos()), "the wrapper's deleteWith is the rule's deleteWith")
	} else {
		r.violation("RULE-DW", "fn="+fname(ar), w.Pos(ar.Pos()), "Location.AddRule no longer lifts the rule's deleteWith to the stored wrapper")
	}
}

func init() {
	register(&propertySpec{
		ID:      "C08",
		Explain: "Static pairing / ordering / provenance rules for deleteWith cascades: the removal primitive always cascades, the cascade runs after the id left the map (termination), dependents come from the re-matching search, every removal from memory is paired with the storage removal, and property / rule wrappers carry deleteWith. Does not decide that exactly the dependents are found (that relies on matching and on the term index).",
		Rules:   []ruleFn{ruleCascade, ruleStoreAck, ruleDeleteWithProvenance, ruleCascErr, ruleLoopExhaust("C08"), ruleTermFilter("C08"), ruleRemStoreFirst("C08"), ruleCascLoad("C08"), ruleCascNoVar, rulePropDwAny("C08"), rulePrepLoadTolerant("C08"), ruleIndexLoad("C08"), ruleFactMapOwner("C08"), ruleCascLoadAfter},
	})
}

// CASC-ERR: a dependent that could not be removed fails the removal that started the cascade.
func ruleCascErr(w *World, r *Report) {
	r.Rule("CASC-ERR", "error discipline of the cascade: inside the functions of a State implementation that the removal entry points reach (Rem, rem, deleteDependencies and what they call on the same type), the error of every storage mutation, and of every function that can return one, reaches the caller's error result on every path on which it is non-nil (ERRFLOW; purge-helper errors are cut off as in STORE-ERR): a cascade that stops at a dependent it could not remove must not report success, or the survivor and everything hanging off it reappear after a reload and nobody retries", 4)
	a := newLocAnchors(w)
	purge := purgeHelpers(w)
	isSrc := func(c *ssa.CallCommon) (string, bool) {
		d, ok := isStorageCall(w, c)
		if !ok || !storageMutatorNames[calleeObj(c).Name()] {
			return "", false
		}
		return d, true
	}
	cut := newErrSourcesCut(w, isSrc, purge)
	// the removal layer of each state type
	layer := map[*ssa.Function]bool{}
	var work []*ssa.Function
	for n := range a.stateImp {
		for _, m := range w.MethodsOf(n) {
			if m.Name() == "Rem" || m.Name() == "rem" || m.Name() == "deleteDependencies" {
				work = append(work, m)
			}
		}
	}
	for len(work) > 0 {
		f := work[len(work)-1]
		work = work[:len(work)-1]
		if layer[f] || purge[f] {
			continue
		}
		layer[f] = true
		owner, _ := stateOwnerOf(a, f)
		withAnon(f, func(g *ssa.Function) {
			layer[g] = true
			allInstrs(g, func(in ssa.Instruction) {
				if c := callOf(in); c != nil {
					if callee := c.StaticCallee(); callee != nil {
						if o2, ok := stateOwnerOf(a, callee); ok && o2 == owner {
							work = append(work, callee)
						}
					}
				}
			})
		})
	}
	scope := func(fn *ssa.Function) bool { return layer[fn] }
	runErrFlow(w, r, "CASC-ERR", cut, scope, storeErrExemptions, errflowCfg{handler: defaultErrHandlers, allowClassify: true, successOnly: true})
}
