package main

// rules_state.go: C12 rules beyond the plain guarded-by table: storage writes and privilege grants as
// pseudo-accesses (ATOM-STORE, PRIV-HELD), privilege pairing (PRIV-PAIR).

import (
	"go/types"

	"golang.org/x/tools/go/ssa"
)

// stateOwnerOf: if fn is a method (or closure in a method) of a core.State implementation, return its type key.
func stateOwnerOf(a *locAnchors, fn *ssa.Function) (string, bool) {
	o := outermost(fn)
	if o.Signature.Recv() == nil {
		return "", false
	}
	n := namedOf(o.Signature.Recv().Type())
	if n == nil || !a.stateImp[n] {
		return "", false
	}
	return typeKey(n), true
}

var storageMutators = map[string]bool{"Add": true, "Remove": true, "Clear": true, "Delete": true}

func isStorageMutation(w *World, in ssa.Instruction) (string, bool) {
	c := callOf(in)
	if c == nil {
		return "", false
	}
	o := calleeObj(c)
	if o == nil || !storageMutators[o.Name()] {
		return "", false
	}
	st := w.Named("core", "Storage")
	if isIfaceMethodCall(c, st, o.Name()) {
		return "Storage." + o.Name(), true
	}
	return "", false
}

// privilege wrappers: functions that grant / revoke the context privilege on every path.
type privAnchors struct {
	grant, revoke map[*ssa.Function]bool
}

func findPrivAnchors(w *World) *privAnchors {
	g := w.Method("core", "Context", "grantPrivilege")
	rv := w.Method("core", "Context", "revokePrivilege")
	p := &privAnchors{grant: map[*ssa.Function]bool{g: true}, revoke: map[*ssa.Function]bool{rv: true}}
	// one level of wrappers: a function whose only rulio call is the primitive
	for _, fn := range w.Funcs {
		if isTestFile(w, fn) || fn == g || fn == rv {
			continue
		}
		callsG, callsR, other := false, false, false
		allInstrs(fn, func(in ssa.Instruction) {
			if c := callOf(in); c != nil {
				switch c.StaticCallee() {
				case g:
					callsG = true
				case rv:
					callsR = true
				default:
					if f := c.StaticCallee(); f != nil && w.IsRulio(f) {
						other = true
					} else if f == nil {
						other = true
					}
				}
			}
		})
		// a wrapper grants (revokes) and does not do the opposite; what else it calls (logging, a no-op defer) does
		// not matter.  A function that grants and forgets to revoke is thereby read as a wrapper too: its callers
		// are then the ones that hold the privilege at their exits, and are reported.
		_ = other
		if callsG && !callsR && fn.Parent() == nil {
			p.grant[fn] = true
		}
		if callsR && !callsG && fn.Parent() == nil {
			p.revoke[fn] = true
		}
	}
	return p
}

func (p *privAnchors) isGrant(in ssa.Instruction) bool {
	c := callOf(in)
	return c != nil && c.StaticCallee() != nil && p.grant[c.StaticCallee()]
}
func (p *privAnchors) isRevoke(in ssa.Instruction) bool {
	c := callOf(in)
	return c != nil && c.StaticCallee() != nil && p.revoke[c.StaticCallee()]
}

// PRIV-PAIR: every grant is revoked on every path to the function's exits.
func rulePrivPair(w *World, r *Report) {
	r.Rule("PRIV-PAIR", "every grant of the context privilege (Context.grantPrivilege or a wrapper such as withPrivilege) is followed on every path to every exit of the function, error returns included, by the matching revoke (called or deferred); a leaked privilege makes the next sunlock a no-op and leaves the state locked forever", 3)
	p := findPrivAnchors(w)
	n := 0
	for _, fn := range w.Funcs {
		if isTestFile(w, fn) || p.grant[fn] || p.revoke[fn] {
			continue
		}
		as, misses := mustFollow(fn, p.isGrant, p.isRevoke)
		if as == 0 {
			continue
		}
		n += as
		key := "fn=" + fname(fn)
		if len(misses) > 0 {
			m := misses[0]
			r.violation("PRIV-PAIR", key, w.PosOf(m.A), "the privilege granted here is still held at the exit at "+w.PosOf(m.Exit), blockPathString(w, m.Path)...)
		} else {
			r.ok("PRIV-PAIR", key, w.Pos(fn.Pos()), "every grant is revoked (deferred or on every path)")
		}
	}
	r.stat("PRIV-PAIR.grant_sites", n)
}

// ATOM-STORE + PRIV-HELD through the lock-set engine: storage mutations and privilege grants made by a
// State implementation are pseudo-accesses that need the state's write lock.
func ruleStateSections(w *World, r *Report) {
	a := newLocAnchors(w)
	p := findPrivAnchors(w)
	var guards []*guardSpec
	for n := range a.stateImp {
		guards = append(guards, &guardSpec{Owner: typeKey(n), Lock: typeKey(n) + ".RWMutex", Fields: map[string]bool{}})
	}
	extra := func(fn *ssa.Function, ins ssa.Instruction) (string, string, string, bool) {
		owner, ok := stateOwnerOf(a, fn)
		if !ok {
			return "", "", "", false
		}
		if p.grant[outermost(fn)] || p.revoke[outermost(fn)] {
			return "", "", "", false
		}
		if desc, ok := isStorageMutation(w, ins); ok {
			return owner + "." + desc, owner + ".RWMutex", "write", true
		}
		if p.isGrant(ins) {
			return owner + ".grantPrivilege", owner + ".RWMutex", "write", true
		}
		return "", "", "", false
	}
	// lock fields must exist
	for _, g := range guards {
		_ = g
	}
	runLocksetXNoTable(w, r, "ATOM-STORE", extra,
		"storage mutations (Storage.Add/Remove/Clear/Delete) made by a State implementation, and every grant of the lock-bypass privilege (PRIV-HELD), happen while that state's write lock is held on every static path: the stored and the in-memory state change in one exclusive section and the privilege can only be used by the lock holder", 8)
}

func runLocksetXNoTable(w *World, r *Report, rule string, extra func(fn *ssa.Function, ins ssa.Instruction) (string, string, string, bool), doc string, floor int) {
	runLocksetX(w, r, rule, nil, extra, doc, floor)
}

// ATOM-SECTION: inside one function of a State implementation, no lock release lies between the
// storage write and the memory write of the same operation.
func ruleAtomSection(w *World, r *Report) {
	r.Rule("ATOM-SECTION", "in every method of a State implementation that performs both a storage mutation and a write to the fact map (directly or through a same-type callee), no release of the state lock lies on a path between the two", 4)
	a := newLocAnchors(w)
	e := newLocksetEngine(w, guardsStates(w))
	factField := map[string]string{}
	for n := range a.stateImp {
		st := structOf(n)
		for i := 0; i < st.NumFields(); i++ {
			if m, ok := st.Field(i).Type().Underlying().(*types.Map); ok {
				if b, ok := m.Key().Underlying().(*types.Basic); ok && b.Kind() == types.String {
					name := st.Field(i).Name()
					if name == "IdToFact" || name == "Facts" {
						factField[typeKey(n)] = name
					}
				}
			}
		}
	}
	// transitive "writes the fact map" / "mutates storage" per function of the state layer
	writesMem := map[*ssa.Function]bool{}
	writesSto := map[*ssa.Function]bool{}
	var layer []*ssa.Function
	for _, fn := range w.Funcs {
		if _, ok := stateOwnerOf(a, fn); ok && !isTestFile(w, fn) {
			layer = append(layer, fn)
		}
	}
	for changed := true; changed; {
		changed = false
		for _, fn := range layer {
			owner, _ := stateOwnerOf(a, fn)
			allInstrs(fn, func(in ssa.Instruction) {
				if !writesMem[fn] && factField[owner] != "" && (writesThroughField(in, owner, factField[owner]) || func() bool { _, ok := storesToField(in, owner, factField[owner]); return ok }()) {
					writesMem[fn], changed = true, true
				}
				if _, ok := isStorageMutation(w, in); ok && !writesSto[fn] {
					writesSto[fn], changed = true, true
				}
				if c := callOf(in); c != nil {
					if f := c.StaticCallee(); f != nil && f != fn {
						if o2, ok := stateOwnerOf(a, f); ok && o2 == owner {
							if writesMem[f] && !writesMem[fn] {
								writesMem[fn], changed = true, true
							}
							if writesSto[f] && !writesSto[fn] {
								writesSto[fn], changed = true, true
							}
						}
					}
				}
			})
		}
	}
	for _, fn := range layer {
		owner, _ := stateOwnerOf(a, fn)
		lock := owner + ".RWMutex"
		var mem, sto []ssa.Instruction
		allInstrs(fn, func(in ssa.Instruction) {
			if _, isDefer := in.(*ssa.Defer); isDefer {
				return
			}
			isM, isS := false, false
			if factField[owner] != "" && writesThroughField(in, owner, factField[owner]) {
				isM = true
			}
			if _, ok := storesToField(in, owner, factField[owner]); ok {
				isM = true
			}
			if _, ok := isStorageMutation(w, in); ok {
				isS = true
			}
			if c := callOf(in); c != nil {
				if f := c.StaticCallee(); f != nil && f != fn {
					if o2, ok := stateOwnerOf(a, f); ok && o2 == owner {
						isM = isM || writesMem[f]
						isS = isS || writesSto[f]
					}
				}
			}
			if isM && !isS {
				mem = append(mem, in)
			}
			if isS && !isM {
				sto = append(sto, in)
			}
		})
		if len(mem) == 0 || len(sto) == 0 {
			continue
		}
		key := "fn=" + fname(fn)
		var bad ssa.Instruction
		for _, m := range mem {
			for _, s := range sto {
				for _, pair := range [][2]ssa.Instruction{{m, s}, {s, m}} {
					if !reachable(fn, pair[0], pair[1]) {
						continue
					}
					if x := between(fn, pair[0], pair[1], func(in ssa.Instruction) bool { return e.releases(in, lock) }); x != nil && bad == nil {
						bad = x
					}
				}
			}
		}
		if bad != nil {
			r.violation("ATOM-SECTION", key, w.PosOf(bad), "the state lock is released between the storage write and the memory write of one operation")
		} else {
			r.ok("ATOM-SECTION", key, w.Pos(fn.Pos()), "storage and memory writes are not separated by a lock release")
		}
	}
}

// LOCKSET-DEEP (thorough): what is reached through a guarded map is guarded too.  A call made by a State
// implementation that hands (part of) a stored fact to a function that may write through that parameter is
// a write access to the fact map's contents and needs the state's write lock.
func ruleLocksetDeep(w *World, r *Report) {
	a := newLocAnchors(w)
	m := newModEngine(w, func(f *ssa.Function) bool { return w.IsRulio(f) })
	var guards []*guardSpec
	extra := func(fn *ssa.Function, ins ssa.Instruction) (string, string, string, bool) {
		owner, ok := stateOwnerOf(a, fn)
		if !ok || stateFactField[owner] == "" {
			return "", "", "", false
		}
		ff := stateFactField[owner]
		stored := func(v ssa.Value) bool {
			return dependsOnProjection(v, func(x ssa.Value) bool { return loadedFromFactMap(owner, x) })
		}
		// direct deep writes: a map update / store through a value that came out of the fact map
		switch x := ins.(type) {
		case *ssa.MapUpdate:
			if !isFieldLoad(x.Map, owner, ff) && stored(x.Map) {
				return owner + "." + ff + "[*] (stored fact)", owner + ".RWMutex", "write", true
			}
		case ssa.CallInstruction:
			c := x.Common()
			f := c.StaticCallee()
			if f == nil || !w.IsRulio(f) {
				return "", "", "", false
			}
			for ai, arg := range c.Args {
				if !stored(arg) {
					continue
				}
				if ok, _ := m.mutatesParamSpec(f, ai, specOf(c, f)); ok {
					return owner + "." + ff + "[*] (stored fact) via " + fname(f), owner + ".RWMutex", "write", true
				}
			}
		}
		return "", "", "", false
	}
	runLocksetX(w, r, "LOCKSET-DEEP", guards, extra,
		"deep guard (thorough tier): a stored fact reached through the guarded fact map is guarded too; every write through it (directly, or by a callee that may write through the parameter it is handed, by MOD analysis) happens under the state's write lock", 1)
	// what was examined (so that "no finding" is not "nothing looked at")
	sites := 0
	for _, fn := range w.Funcs {
		owner, ok := stateOwnerOf(a, fn)
		if !ok || stateFactField[owner] == "" || isTestFile(w, fn) {
			continue
		}
		allInstrs(fn, func(in ssa.Instruction) {
			c := callOf(in)
			if c == nil || c.StaticCallee() == nil || !w.IsRulio(c.StaticCallee()) {
				return
			}
			for _, arg := range c.Args {
				if dependsOnProjection(arg, func(x ssa.Value) bool { return loadedFromFactMap(owner, x) }) {
					sites++
					return
				}
			}
		})
	}
	if sites == 0 {
		undecided("LOCKSET-DEEP: no call site hands a stored fact to a callee (the matcher for stored facts is dead)")
	}
	r.ok("LOCKSET-DEEP", "scope=state implementations", "", itoa(sites)+" call sites hand a stored fact to a rulio callee; each callee's may-modify summary was consulted")
}

// dependsOnProjection: v is a projection (element, field, conversion, assertion) of a value satisfying pred.
func dependsOnProjection(v ssa.Value, pred func(ssa.Value) bool) bool {
	for d := 0; d < 12 && v != nil; d++ {
		if pred(v) {
			return true
		}
		switch x := v.(type) {
		case *ssa.Extract:
			v = x.Tuple
		case *ssa.ChangeType:
			v = x.X
		case *ssa.ChangeInterface:
			v = x.X
		case *ssa.MakeInterface:
			v = x.X
		case *ssa.TypeAssert:
			v = x.X
		case *ssa.Field:
			v = x.X
		case *ssa.Lookup:
			if pred(x) {
				return true
			}
			v = x.X
		case *ssa.UnOp:
			v = x.X
		case *ssa.FieldAddr:
			v = x.X
		case *ssa.Alloc:
			// a local copy of a struct taken out of the map (range value): follow its single store
			var sv ssa.Value
			n := 0
			for _, ref := range *x.Referrers() {
				if st, ok := ref.(*ssa.Store); ok && st.Addr == x {
					sv = st.Val
					n++
				}
			}
			if n != 1 {
				return false
			}
			v = sv
		default:
			return false
		}
	}
	return false
}

// CTX-SHARE: the lock-bypass privilege lives in the Context; goroutines of one fan-out that share a Context share it.
func ruleCtxShare(w *World, r *Report) {
	r.Rule("CTX-SHARE", "goroutines started in a loop that all capture the same *Context (not a per-goroutine SubContext) must not be able to reach a grant of the lock-bypass privilege (Context.grantPrivilege): the privilege is per context, not per goroutine, so while one of them is inside a state hook its siblings skip the state lock", 1)
	p := findPrivAnchors(w)
	// functions that can reach a grant (VTA)
	reaches := map[*ssa.Function]bool{}
	for f := range p.grant {
		reaches[f] = true
	}
	// the JavaScript engine calls the Env callbacks reflectively: every function literal with the callback signature is a
	// callee of whatever runs a script
	var jsCallbacks []*ssa.Function
	for _, fn := range w.Funcs {
		if fn.Parent() == nil || isTestFile(w, fn) {
			continue
		}
		ps := fn.Signature.Params()
		if ps.Len() == 1 && isNamed(ps.At(0).Type(), ottoPath, "FunctionCall") {
			jsCallbacks = append(jsCallbacks, fn)
		}
	}
	for changed := true; changed; {
		changed = false
		for _, fn := range w.Funcs {
			if reaches[fn] || isTestFile(w, fn) {
				continue
			}
			allInstrs(fn, func(in ssa.Instruction) {
				if reaches[fn] {
					return
				}
				ci, ok := in.(ssa.CallInstruction)
				if !ok {
					return
				}
				if o := calleeObj(ci.Common()); o != nil && o.Pkg() != nil && o.Pkg().Path() == ottoPath && (o.Name() == "Run" || o.Name() == "Call") {
					for _, cb := range jsCallbacks {
						if reaches[cb] {
							reaches[fn], changed = true, true
						}
					}
				}
				if f := ci.Common().StaticCallee(); f != nil {
					if reaches[f] {
						reaches[fn], changed = true, true
					}
					return
				}
				for _, f := range w.Callees(ci) {
					if reaches[f] {
						reaches[fn], changed = true, true
					}
				}
			})
		}
	}
	n := 0
	for _, fn := range w.Funcs {
		if isTestFile(w, fn) || w.RelPkg(fn) != "core" {
			continue
		}
		allInstrs(fn, func(in ssa.Instruction) {
			g, ok := in.(*ssa.Go)
			if !ok || !reachable(fn, in, in) {
				return
			}
			mc, ok := g.Call.Value.(*ssa.MakeClosure)
			if !ok {
				return
			}
			body := mc.Fn.(*ssa.Function)
			// a captured *Context that is not re-created between two `go`s
			shared := false
			for k, fv := range body.FreeVars {
				if !isNamed(fv.Type(), modPath+"/core", "Context") && !isPtrToPtrContext(fv.Type()) {
					continue
				}
				if k >= len(mc.Bindings) {
					continue
				}
				b := mc.Bindings[k]
				if bi, isInstr := b.(ssa.Instruction); isInstr {
					if h, _ := reach(fn, in, func(z ssa.Instruction) bool { return z == in }, func(z ssa.Instruction) bool { return z == bi }, nil); h == nil {
						continue // re-created on every iteration
					}
				}
				shared = true
			}
			if !shared {
				return
			}
			n++
			key := "go in " + fname(fn)
			if reaches[body] && privilegeOnlyOnOwnContexts(w) {
				r.ok("CTX-SHARE", key, w.PosOf(in), "shared context, and a grant of the privilege is reachable — but the privilege is only ever granted on a context made for the hook in the granting function (PRIV-LOCAL holds), never on one that is shared")
				return
			}
			if reaches[body] {
				r.violation("CTX-SHARE", key, w.PosOf(in), "the goroutines of this fan-out share one Context and can reach Context.grantPrivilege: a sibling skips the state lock while one of them holds the privilege")
			} else {
				r.ok("CTX-SHARE", key, w.PosOf(in), "shared context, but no grant of the privilege is reachable")
			}
		})
	}
	r.stat("CTX-SHARE.fanouts_sharing_a_context", n)
}

func isPtrToPtrContext(t types.Type) bool {
	p, ok := t.(*types.Pointer)
	if !ok {
		return false
	}
	return isNamed(p.Elem(), modPath+"/core", "Context")
}

// privilegeOnlyOnOwnContexts: the premise of PRIV-LOCAL, as a predicate: every grantPrivilege call has the result of
// SubContext as its receiver, and SubContext does not store into the new context's privilege.
func privilegeOnlyOnOwnContexts(w *World) bool {
	grant := w.TryMethod("core", "Context", "grantPrivilege")
	sub := w.TryMethod("core", "Context", "SubContext")
	if grant == nil || sub == nil {
		return false
	}
	ok := true
	for _, fn := range w.Funcs {
		if !w.IsRulio(fn) || isTestFile(w, fn) {
			continue
		}
		allInstrs(fn, func(in ssa.Instruction) {
			c := callOf(in)
			if c == nil || c.StaticCallee() != grant || len(c.Args) == 0 {
				return
			}
			if cc, isCall := resolveSpill(c.Args[0]).(*ssa.Call); !isCall || cc.Common().StaticCallee() != sub {
				ok = false
			}
		})
	}
	allInstrs(sub, func(in ssa.Instruction) {
		if st, isSt := in.(*ssa.Store); isSt {
			if _, f, _, isF := fieldOf(st.Addr); isF && f == "privilege" {
				ok = false
			}
		}
	})
	return ok
}
