package main

// rules_limits.go: C20 — breaker / throttle shape rules (capacity gate is in rules_access.go,
// lock-set in rules_lock.go).

import (
	"go/token"
	"go/types"

	"golang.org/x/tools/go/ssa"
)

const ob = "core.OutboundBreaker"

// BRK-ATOMIC: in OutboundBreaker.Do the comparison with the limit and the admission count lie in one
// uninterrupted critical section.
func ruleBrkAtomic(w *World, r *Report) {
	r.Rule("BRK-ATOMIC", "in every method of OutboundBreaker that both compares the window total with `limit` and increments `counts`, no release of the breaker's mutex lies on a path from the comparison to the increment (check-then-act atomicity under any concurrency)", 1)
	e := newLocksetEngine(w, guardsBreakers())
	n := w.Named("core", "OutboundBreaker")
	lock := ob + ".Mutex"
	for _, fn := range w.MethodsOf(n) {
		var cmps, incs []ssa.Instruction
		allInstrs(fn, func(in ssa.Instruction) {
			if b, ok := in.(*ssa.BinOp); ok && (b.Op == token.LSS || b.Op == token.LEQ || b.Op == token.GTR || b.Op == token.GEQ) {
				if isFieldLoad(b.X, ob, "limit") || isFieldLoad(b.Y, ob, "limit") {
					cmps = append(cmps, in)
				}
			}
			if writesThroughField(in, ob, "counts") {
				// an increment: the stored value depends on the element's previous value
				if st, ok := in.(*ssa.Store); ok {
					if dependsOn(st.Val, func(v ssa.Value) bool {
						u, ok := v.(*ssa.UnOp)
						if !ok || u.Op != token.MUL {
							return false
						}
						ia, ok := u.X.(*ssa.IndexAddr)
						return ok && isFieldLoad(ia.X, ob, "counts")
					}) {
						incs = append(incs, in)
					}
				}
			}
		})
		if len(cmps) == 0 || len(incs) == 0 {
			continue
		}
		for _, c := range cmps {
			for _, i := range incs {
				key := "fn=" + fname(fn)
				if !reachable(fn, c, i) {
					r.violation("BRK-ATOMIC", key, w.PosOf(i), "the admission count is incremented on a path that does not follow the limit comparison")
					continue
				}
				if x := between(fn, c, i, func(in ssa.Instruction) bool { return e.releases(in, lock) }); x != nil {
					r.violation("BRK-ATOMIC", key, w.PosOf(x), "the breaker's mutex is released between the limit comparison and the admission count increment: concurrent callers can all pass the check")
				} else {
					r.ok("BRK-ATOMIC", key, w.PosOf(i), "comparison and increment in one critical section")
				}
			}
		}
	}
}

// BRK-SLIDE: the clock stored by slide must depend on the quantised shift.
func ruleBrkSlide(w *World, r *Report) {
	r.Rule("BRK-SLIDE", "the value stored to OutboundBreaker.updated by slide is computed from the tick resolution derived from `interval` (whole ticks), or — if it drops the remainder — is stored only under a test of the shift against the window length: advancing the clock to `now` otherwise discards the sub-tick remainder, so a breaker polled faster than one tick never slides, or slides late", 1)
	fn := w.Method("core", "OutboundBreaker", "slide")
	isInterval := func(v ssa.Value) bool {
		if fa, ok := v.(*ssa.FieldAddr); ok {
			n, f, _, ok := fieldOf(fa)
			return ok && typeKey(n) == ob && (f == "interval" || f == "ticks")
		}
		return false
	}
	n := 0
	allInstrs(fn, func(in ssa.Instruction) {
		st, ok := storesToField(in, ob, "updated")
		if !ok {
			return
		}
		n++
		key := "fn=" + fname(fn) + " store=updated"
		deadBranch := false
		isCounts := func(v ssa.Value) bool {
			if fa, ok := v.(*ssa.FieldAddr); ok {
				n, f, _, ok := fieldOf(fa)
				return ok && typeKey(n) == ob && f == "counts"
			}
			return false
		}
		if dependsOn(st.Val, isInterval) {
			r.ok("BRK-SLIDE", key, w.PosOf(in), "the new clock is computed from the tick resolution (whole ticks)")
		} else if controlDependsOn(fn, in, isInterval) && controlDependsOnIf(fn, in, func(ifi *ssa.If) bool {
			// a comparison one of whose operands is len(b.counts) itself (not merely a value that was capped by it)
			bo, ok := ifi.Cond.(*ssa.BinOp)
			if !ok {
				return false
			}
			isLenCounts := func(v ssa.Value) bool {
				if cv, isC := v.(*ssa.Convert); isC {
					v = cv.X // int64(len(b.counts))
				}
				c, ok := v.(*ssa.Call)
				if !ok {
					return false
				}
				bi, ok := c.Common().Value.(*ssa.Builtin)
				return ok && bi.Name() == "len" && len(c.Call.Args) == 1 && dependsOn(c.Call.Args[0], isCounts)
			}
			if !((isLenCounts(bo.X) && dependsOn(bo.Y, isInterval)) || (isLenCounts(bo.Y) && dependsOn(bo.X, isInterval))) {
				return false
			}
			// the shift was capped at the window length before (`if len(counts) < ticks { ticks = len(counts) }`: a phi
			// one of whose edges is len(counts)): then `len(counts) < ticks` can never be true again, and the branch
			// that stores `now` is dead — the comparison has to admit equality
			shift := bo.Y
			strictDead := bo.Op == token.LSS
			if isLenCounts(bo.Y) {
				shift = bo.X
				strictDead = bo.Op == token.GTR
			}
			capped := dependsOn(shift, func(v ssa.Value) bool {
				p, ok := v.(*ssa.Phi)
				if !ok {
					return false
				}
				for _, e := range p.Edges {
					if isLenCounts(e) {
						return true
					}
				}
				return false
			})
			if capped && strictDead {
				deadBranch = true
				return false
			}
			return true
		}) {
			r.ok("BRK-SLIDE", key, w.PosOf(in), "a clock value that drops the remainder is stored only under a test of the shift against the window length (everything has aged out)")
		} else if deadBranch {
			r.violation("BRK-SLIDE", key, w.PosOf(in), "the branch that advances the clock to `now` when the whole window has aged out tests the window length against a shift that was capped at that length with a strict comparison: it can never be taken, so after an idle period the clock stays behind and every one of the next calls wipes the window again (limit + idle/interval calls are admitted in one burst)")
		} else if controlDependsOn(fn, in, isInterval) {
			r.violation("BRK-SLIDE", key, w.PosOf(in), "slide stores a clock value that drops the sub-tick remainder although part of the window is still occupied (not under a test against the window length): every shift loses up to one tick, and a full breaker polled steadily needs up to twice the interval to admit again")
		} else {
			r.violation("BRK-SLIDE", key, w.PosOf(in), "slide stores a clock value that does not depend on the quantised shift (sub-tick remainder lost on every call)")
		}
	})
	if n == 0 {
		r.violation("BRK-SLIDE", "fn="+fname(fn)+" store=updated", w.Pos(fn.Pos()), "slide no longer advances OutboundBreaker.updated")
		return
	}
	// catch-up clause: the shift is capped at the window length (premise: a comparison of the shift with len(counts)
	// guards an assignment of that length to it); a window that has aged out completely can lie any number of
	// intervals back, and whole ticks of a *capped* shift bring the clock forward by one interval only.  Some store to
	// `updated` therefore takes the `now` parameter itself.  Without it, after k idle intervals each of the next k
	// calls wipes the window again: limit + k - 1 calls are admitted in one burst.
	capped := false
	allInstrs(fn, func(in ssa.Instruction) {
		if p, ok := in.(*ssa.Phi); ok {
			if b, isB := p.Type().Underlying().(*types.Basic); isB && b.Info()&types.IsInteger != 0 {
				for _, e := range p.Edges {
					if c, isC := e.(*ssa.Call); isC {
						if bi, isBi := c.Common().Value.(*ssa.Builtin); isBi && bi.Name() == "len" {
							capped = true
						}
					}
				}
			}
		}
	})
	if !capped || len(fn.Params) < 2 {
		return
	}
	now := fn.Params[1]
	jump := false
	allInstrs(fn, func(in ssa.Instruction) {
		if st, ok := storesToField(in, ob, "updated"); ok {
			v := resolveSpill(st.Val)
			if v == ssa.Value(now) {
				jump = true
			}
			if u, isU := v.(*ssa.UnOp); isU && u.Op == token.MUL {
				// the parameter spilled to a slot (a struct)
				if al, isAl := u.X.(*ssa.Alloc); isAl {
					for _, ref := range *al.Referrers() {
						if s2, isS := ref.(*ssa.Store); isS && s2.Addr == ssa.Value(al) && s2.Val == ssa.Value(now) {
							jump = true
						}
					}
				}
			}
		}
	})
	key := "fn=" + fname(fn) + " catch-up"
	if jump {
		r.ok("BRK-SLIDE", key, w.Pos(fn.Pos()), "a window that has aged out completely restarts at `now`")
	} else {
		r.violation("BRK-SLIDE", key, w.Pos(fn.Pos()), "the shift is capped at the window length and the clock only ever advances by whole ticks of it: after k idle intervals the clock is k-1 intervals behind, and each of the next calls wipes the window again (limit + k - 1 calls in one burst)")
	}
}

// BRK-ATTEMPTED: every implementation of Breaker.Do reports `true` on every path on which it invoked the thunk.
func ruleBrkAttempted(w *World, r *Report) {
	r.Rule("BRK-ATTEMPTED", "sibling agreement over all implementations of core.Breaker: on every path of Do on which the thunk parameter is called, the first result is the constant true or a value whose true edge dominates the call (so a Throttle never runs a function it is told was not attempted)", 3)
	iface := w.Iface("core", "Breaker")
	for _, n := range w.Implementers(iface) {
		fn := w.TryMethod(typeRel(n), n.Obj().Name(), "Do")
		if fn == nil {
			continue // promoted from an embedded Breaker
		}
		if len(fn.Params) < 2 {
			continue
		}
		thunk := fn.Params[1]
		var calls []ssa.Instruction
		allInstrs(fn, func(in ssa.Instruction) {
			if c := callOf(in); c != nil && !c.IsInvoke() && c.Value == thunk {
				calls = append(calls, in)
			}
		})
		key := "impl=" + fname(fn)
		if len(calls) == 0 {
			r.info("BRK-ATTEMPTED", key, w.Pos(fn.Pos()), "Do never calls its thunk directly (delegates)")
			continue
		}
		bad := ""
		var badAt ssa.Instruction
		for _, call := range calls {
			// every return reachable from the call
			allInstrs(fn, func(in ssa.Instruction) {
				ret, ok := in.(*ssa.Return)
				if !ok || len(ret.Results) == 0 || bad != "" {
					return
				}
				if ret.Block() != call.Block() && !reachable(fn, call, ret) {
					return
				}
				if ret.Block() == call.Block() && posOfInstr(ret).i < posOfInstr(call).i {
					return
				}
				v := resolveSpill(ret.Results[0])
				if b, ok := isConstBool(v); ok {
					if !b {
						bad, badAt = "returns false after calling the thunk", ret
					}
					return
				}
				if !trueEdgeDominates(fn, v, call) {
					bad, badAt = "returns a value that is not implied by the condition under which the thunk ran", ret
				}
			})
		}
		if bad != "" {
			r.violation("BRK-ATTEMPTED", key, w.PosOf(badAt), bad)
		} else {
			r.ok("BRK-ATTEMPTED", key, w.Pos(fn.Pos()), "first result is true whenever the thunk was invoked")
		}
	}
}

func typeRel(n *types.Named) string {
	k := typeKey(n)
	for i := len(k) - 1; i >= 0; i-- {
		if k[i] == '.' {
			return k[:i]
		}
	}
	return k
}

// trueEdgeDominates: `at` is dominated by the true edge of a branch on v itself (possibly through a phi
// whose other edges are constant true).
func trueEdgeDominates(fn *ssa.Function, v ssa.Value, at ssa.Instruction) bool {
	for _, b := range fn.Blocks {
		if len(b.Instrs) == 0 {
			continue
		}
		ifi, ok := b.Instrs[len(b.Instrs)-1].(*ssa.If)
		if !ok {
			continue
		}
		ct, ok := decodeIf(ifi)
		if !ok || ct.V != v {
			continue
		}
		var succ *ssa.BasicBlock
		if ct.TrueWhen == "true" {
			succ = b.Succs[0]
		} else if ct.TrueWhen == "false" {
			succ = b.Succs[1]
		} else {
			continue
		}
		// the edge b->succ dominates `at` iff succ dominates at's block and succ's only predecessor is b
		if len(succ.Preds) == 1 && succ.Dominates(at.Block()) {
			return true
		}
	}
	return false
}

// THR-PENDING / THR-ONCE: throttle accounting.
func ruleThrottle(w *World, r *Report) {
	r.Rule("THR-PENDING", "in Throttle.Submit the pending limit test and the increment of `pending` lie in one critical section; the decrement is dominated by the increment, no path decrements twice, and every path from the increment to an exit passes the decrement (`pending` is what Pending() reports as the number of waiting submissions)", 2)
	r.Rule("THR-ONCE", "in Throttle.Submit the breaker is retried only on the not-attempted edge of the previous Do (with BRK-ATTEMPTED: a submitted function runs at most once)", 1)
	fn := w.Method("core", "Throttle", "Submit")
	e := newLocksetEngine(w, guardsBreakers())
	const th = "core.Throttle"
	lock := th + ".Mutex"
	var cmp, inc, dec []ssa.Instruction
	allInstrs(fn, func(in ssa.Instruction) {
		if b, ok := in.(*ssa.BinOp); ok && (b.Op == token.LSS || b.Op == token.LEQ || b.Op == token.GTR || b.Op == token.GEQ) {
			if (isFieldLoad(b.X, th, "pendingLimit") && isFieldLoad(b.Y, th, "pending")) || (isFieldLoad(b.Y, th, "pendingLimit") && isFieldLoad(b.X, th, "pending")) {
				cmp = append(cmp, in)
			}
		}
		if st, ok := storesToField(in, th, "pending"); ok {
			if b, ok := st.Val.(*ssa.BinOp); ok && isFieldLoad(b.X, th, "pending") {
				if b.Op == token.ADD {
					inc = append(inc, in)
				} else if b.Op == token.SUB {
					dec = append(dec, in)
				}
			}
		}
	})
	key := "fn=" + fname(fn)
	if len(cmp) == 0 || len(inc) == 0 || len(dec) == 0 {
		r.violation("THR-PENDING", key+" shape", w.Pos(fn.Pos()), "Submit no longer has a pending-limit comparison, an increment and a decrement of `pending`")
	} else {
		okAtomic := true
		for _, c := range cmp {
			for _, i := range inc {
				if x := between(fn, c, i, func(in ssa.Instruction) bool { return e.releases(in, lock) }); x != nil || !reachable(fn, c, i) {
					okAtomic = false
					r.violation("THR-PENDING", key+" test-and-increment", w.PosOf(i), "the pending limit test and the increment are not in one critical section")
				}
			}
		}
		if okAtomic {
			r.ok("THR-PENDING", key+" test-and-increment", w.PosOf(inc[0]), "limit test and increment in one critical section")
		}
		// decrement dominated by increment
		isInc := func(in ssa.Instruction) bool {
			for _, i := range inc {
				if i == in {
					return true
				}
			}
			return false
		}
		isDec := func(in ssa.Instruction) bool {
			for _, d := range dec {
				if d == in {
					return true
				}
			}
			return false
		}
		_, miss := mustPrecede(fn, isInc, isDec)
		if len(miss) > 0 {
			r.violation("THR-PENDING", key+" decrement-after-increment", w.PosOf(miss[0].Exit), "`pending` can be decremented on a path that never incremented it", blockPathString(w, miss[0].Path)...)
		} else {
			r.ok("THR-PENDING", key+" decrement-after-increment", w.PosOf(dec[0]), "every path to the decrement passes the increment")
		}
		// no second decrement after a decrement
		twice := false
		for _, d := range dec {
			if h, _ := reach(fn, d, isDec, nil, nil); h != nil {
				twice = true
				r.violation("THR-PENDING", key+" decrement-once", w.PosOf(h), "a path decrements `pending` twice")
			}
		}
		if !twice {
			r.ok("THR-PENDING", key+" decrement-once", w.PosOf(dec[0]), "no path decrements twice")
		}
		// informational: increment without decrement
		_, leak := mustFollow(fn, isInc, isDec)
		if len(leak) > 0 {
			r.violation("THR-PENDING", key+" increment-leak", w.PosOf(leak[0].Exit), "a path returns after the increment without the decrement: a submission that was turned away stays counted for ever, Pending() reports more than limit+1 with nothing waiting, and once the count has drifted past the limit every later submission overflows", blockPathString(w, leak[0].Path)...)
		} else {
			r.ok("THR-PENDING", key+" increment-leak", w.PosOf(inc[0]), "every path from the increment to an exit passes the decrement")
		}
	}
	// THR-ONCE
	breakerDo := func(in ssa.Instruction) bool {
		c := callOf(in)
		if c == nil {
			return false
		}
		o := calleeObj(c)
		return o != nil && o.Name() == "Do" && len(c.Args) >= 1 && dependsOn(c.Args[len(c.Args)-1], func(v ssa.Value) bool { return v == ssa.Value(fn.Params[1]) })
	}
	var dos []ssa.Instruction
	allInstrs(fn, func(in ssa.Instruction) {
		if breakerDo(in) {
			dos = append(dos, in)
		}
	})
	if len(dos) == 0 {
		r.violation("THR-ONCE", key, w.Pos(fn.Pos()), "Submit no longer hands the submitted function to the breaker's Do")
		return
	}
	for _, d := range dos {
		d := d
		g := newGateEngine(w, []gateSpec{{Name: "worked", FailWhen: "true", Idx: 0, IsGate: func(c *ssa.CallCommon) bool { return c == callOf(d) }}}, nil, nil)
		ef, _ := g.passEdgeFilter(fn)
		// with the not-attempted (false) edges deleted, the Do call must not be reachable again
		if h, _ := reach(fn, d, func(in ssa.Instruction) bool {
			for _, x := range dos {
				if x == in {
					return true
				}
			}
			return false
		}, nil, ef); h != nil {
			r.violation("THR-ONCE", key, w.PosOf(h), "the breaker's Do can be invoked again after an attempt that reported `true` (the function may run more than once)")
		} else {
			r.ok("THR-ONCE", key, w.PosOf(d), "Do is retried only on the not-attempted edge")
		}
	}
}

// HTTP-BRK: the outbound request is issued only after the breaker was consulted.
func ruleHTTPBreaker(w *World, r *Report) {
	r.Rule("HTTP-BRK", "in HTTPRequest.DoOnce every path to (*http.Client).Do passes the lookup of the URI's breaker and, when one exists, the true edge of its Zap", 1)
	fn := w.Method("core", "HTTPRequest", "DoOnce")
	lookup := gateSpec{Name: "getHTTPBreaker==nil", FailWhen: "nonnil", Idx: -1, IsGate: func(c *ssa.CallCommon) bool {
		return isPkgFunc(calleeObj(c), modPath+"/core", "getHTTPBreaker")
	}}
	zap := gateSpec{Name: "Zap", FailWhen: "false", Idx: -1, IsGate: func(c *ssa.CallCommon) bool {
		return isMethodOf(calleeObj(c), modPath+"/core", "OutboundBreaker", "Zap")
	}}
	g := newGateEngine(w, []gateSpec{lookup, zap}, nil, nil)
	ef, nTests := g.passEdgeFilter(fn)
	isClientDo := func(in ssa.Instruction) bool {
		o := calleeObj(callOf(in))
		return o != nil && o.Name() == "Do" && recvNamed(o) != nil && recvNamed(o).Obj().Pkg() != nil && recvNamed(o).Obj().Pkg().Path() == "net/http" && recvNamed(o).Obj().Name() == "Client"
	}
	sinks := 0
	allInstrs(fn, func(in ssa.Instruction) {
		if isClientDo(in) {
			sinks++
		}
	})
	key := "fn=" + fname(fn)
	if sinks == 0 || nTests < 2 {
		r.violation("HTTP-BRK", key, w.Pos(fn.Pos()), "DoOnce no longer has the shape breaker-lookup / Zap test / client.Do")
		return
	}
	if h, path := reach(fn, nil, isClientDo, nil, ef); h != nil {
		r.violation("HTTP-BRK", key, w.PosOf(h), "client.Do reachable without consulting the breaker (or on its open edge)", blockPathString(w, path)...)
	} else {
		r.ok("HTTP-BRK", key, w.Pos(fn.Pos()), "client.Do only behind the no-breaker / breaker-closed edges")
	}
}

// BRK-WINDOW (C20): the slots of the sliding window cover a whole interval.
func ruleBrkWindow(w *World, r *Report) {
	r.Rule("BRK-WINDOW", "OutboundBreaker keeps one count per tick (interval / ticks); slide() shifts by whole ticks, so element 0 belongs to the current, partial tick and the remaining len(counts)-1 elements to whole ticks.  The window the limit is tested against therefore reaches back between len(counts)-1 and len(counts) ticks, and it covers a whole interval only if the array has more elements than the interval has ticks: where `counts` is allocated, its length is the tick count plus at least one.  With exactly `ticks` elements a call made late in a tick is forgotten after a little more than ticks-1 ticks, and 2*limit-1 calls fit into a window shorter than the interval", 1)
	const ob = "core.OutboundBreaker"
	n := 0
	for _, fn := range w.Funcs {
		if w.RelPkg(fn) != "core" || isTestFile(w, fn) {
			continue
		}
		var ticksVal ssa.Value
		allInstrs(fn, func(in ssa.Instruction) {
			if st, ok := storesToField(in, ob, "ticks"); ok {
				ticksVal = st.Val
			}
		})
		allInstrs(fn, func(in ssa.Instruction) {
			st, ok := storesToField(in, ob, "counts")
			if !ok {
				return
			}
			ms, ok := st.Val.(*ssa.MakeSlice)
			if !ok {
				return
			}
			n++
			key := "fn=" + fname(fn)
			if ticksVal == nil {
				r.exempt("BRK-WINDOW", key, w.PosOf(in), "the function that allocates `counts` does not set `ticks`: shape not recognised, not decided")
				return
			}
			l := ms.Len
			if cv, ok := l.(*ssa.Convert); ok {
				l = cv.X
			}
			tv := ticksVal
			if cv, ok := tv.(*ssa.Convert); ok {
				tv = cv.X
			}
			more := false
			if b, ok := l.(*ssa.BinOp); ok && b.Op == token.ADD {
				if c, ok := b.Y.(*ssa.Const); ok && c.Value != nil && c.Int64() >= 1 && (b.X == tv || sameConst(b.X, tv)) {
					more = true
				}
				if c, ok := b.X.(*ssa.Const); ok && c.Value != nil && c.Int64() >= 1 && (b.Y == tv || sameConst(b.Y, tv)) {
					more = true
				}
			}
			if lc, ok := l.(*ssa.Const); ok {
				if tc, ok := tv.(*ssa.Const); ok && lc.Value != nil && tc.Value != nil && lc.Int64() > tc.Int64() {
					more = true
				}
			}
			if more {
				r.ok("BRK-WINDOW", key, w.PosOf(in), "the window has more elements than the interval has ticks")
			} else {
				r.violation("BRK-WINDOW", key, w.PosOf(in), "`counts` has exactly as many elements as the interval has ticks: the window reaches back less than one interval (between ticks-1 and ticks ticks)")
			}
		})
	}
	if n == 0 {
		r.exempt("BRK-WINDOW", "field="+ob+".counts", "", "no allocation of OutboundBreaker.counts found: shape not recognised, not decided")
	}
}

func sameConst(a, b ssa.Value) bool {
	ca, ok1 := a.(*ssa.Const)
	cb, ok2 := b.(*ssa.Const)
	return ok1 && ok2 && ca.Value != nil && cb.Value != nil && ca.Int64() == cb.Int64()
}

// BRK-ADJUST (C20): adjusting a breaker does not forget the calls in its window.
func ruleBrkAdjust(w *World, r *Report) {
	r.Rule("BRK-ADJUST", "OutboundBreaker.Adjust changes the limit (and possibly the interval) of a breaker that is in use.  In the functions it reaches, a store of a newly made slice into `counts` is control-dependent on a test of the breaker's current state (the present `counts` or `interval`): an unconditional re-allocation forgets the calls that are in the window, so any Adjust — even with unchanged values — lets another `limit` calls through at once", 1)
	const ob = "core.OutboundBreaker"
	adj := w.Method("core", "OutboundBreaker", "Adjust")
	seen := map[*ssa.Function]bool{}
	var fns []*ssa.Function
	var visit func(f *ssa.Function)
	visit = func(f *ssa.Function) {
		if f == nil || seen[f] || len(f.Blocks) == 0 || !w.IsRulio(f) {
			return
		}
		seen[f] = true
		fns = append(fns, f)
		allInstrs(f, func(in ssa.Instruction) {
			if c := callOf(in); c != nil {
				visit(c.StaticCallee())
			}
		})
	}
	visit(adj)
	n := 0
	for _, fn := range fns {
		allInstrs(fn, func(in ssa.Instruction) {
			st, ok := storesToField(in, ob, "counts")
			if !ok {
				return
			}
			if _, isMake := st.Val.(*ssa.MakeSlice); !isMake {
				return
			}
			n++
			key := "fn=" + fname(fn)
			onState := func(v ssa.Value) bool {
				return isFieldLoad(v, ob, "counts") || isFieldLoad(v, ob, "interval") || isFieldLoad(v, ob, "ticks")
			}
			if controlDependsOn(fn, in, onState) {
				r.ok("BRK-ADJUST", key, w.PosOf(in), "the window is re-allocated only when its shape changes")
				// carry clause: what the old window counted goes into the new one
				ms := st.Val.(*ssa.MakeSlice)
				carried := false
				// a running sum of the window kept in a field of its own (`total`): a field of the breaker into which some
				// method stores a value computed from an element of `counts`
				sumFields := map[string]bool{}
				for _, m := range w.MethodsOf(w.Named("core", "OutboundBreaker")) {
					allInstrs(m, func(x ssa.Instruction) {
						s2, ok := x.(*ssa.Store)
						if !ok {
							return
						}
						n2, f2, _, ok := fieldOf(s2.Addr)
						if !ok || typeKey(n2) != ob || f2 == "counts" {
							return
						}
						if dependsOn(s2.Val, func(v ssa.Value) bool {
							switch t := v.(type) {
							case *ssa.Index:
								return isFieldLoad(t.X, ob, "counts")
							case *ssa.IndexAddr:
								return isFieldLoad(t.X, ob, "counts")
							}
							return false
						}) {
							sumFields[f2] = true
						}
					})
				}
				isSumLoad := func(v ssa.Value) bool {
					for f := range sumFields {
						if isFieldLoad(v, ob, f) {
							return true
						}
					}
					return false
				}
				allInstrs(fn, func(x ssa.Instruction) {
					s2, ok := x.(*ssa.Store)
					if !ok {
						return
					}
					ia, ok := s2.Addr.(*ssa.IndexAddr)
					if !ok {
						return
					}
					// an element of the (new) counts: the slice loaded from the field after the store, or the make itself
					base := resolveSpill(ia.X)
					if base != ssa.Value(ms) && !isFieldLoad(base, ob, "counts") {
						return
					}
					if !reachable(fn, in, x) {
						return
					}
					if dependsOn(s2.Val, func(v ssa.Value) bool {
						// a value read out of the old counts: a range / index over the field loaded before the re-allocation
						switch t := v.(type) {
						case *ssa.Index:
							return isFieldLoad(t.X, ob, "counts")
						case *ssa.IndexAddr:
							return isFieldLoad(t.X, ob, "counts")
						case *ssa.Next:
							return true
						}
						return isSumLoad(v)
					}) {
						carried = true
					}
				})
				if carried {
					r.ok("BRK-ADJUST", key+" carry", w.PosOf(in), "the calls counted by the old window are carried into the new one")
					// aged clause: only what is still in the old window is carried: the window is slid to the present
					// before it is summed (every path from the entry to the re-allocation passes a call of slide)
					slide := w.Method("core", "OutboundBreaker", "slide")
					isSlide := func(x ssa.Instruction) bool {
						c := callOf(x)
						return c != nil && c.StaticCallee() == slide
					}
					// the reads of the old window: element accesses on `counts` from which the re-allocation is still ahead
					var stale ssa.Instruction
					nOld := 0
					allInstrs(fn, func(x ssa.Instruction) {
						var base ssa.Value
						switch t := x.(type) {
						case *ssa.Index:
							base = t.X
						case *ssa.IndexAddr:
							base = t.X
							for _, ref := range *t.Referrers() {
								if s3, ok := ref.(*ssa.Store); ok && s3.Addr == ssa.Value(t) {
									base = nil // a write
								}
							}
						}
						if v, isV := x.(ssa.Value); isV && base == nil && isSumLoad(v) {
							// the running sum stands for the window
							if reachable(fn, x, in) {
								nOld++
								if h, _ := reach(fn, nil, func(y ssa.Instruction) bool { return y == x }, isSlide, nil); h != nil && stale == nil {
									stale = x
								}
							}
							return
						}
						if base == nil || !isFieldLoad(base, ob, "counts") || !reachable(fn, x, in) {
							return
						}
						nOld++
						if h, _ := reach(fn, nil, func(y ssa.Instruction) bool { return y == x }, isSlide, nil); h != nil && stale == nil {
							stale = x
						}
					})
					if nOld == 0 {
						r.exempt("BRK-ADJUST", key+" aged", w.PosOf(in), "no element read of the old window found before the re-allocation: shape not recognised, not decided")
					} else if stale == nil {
						r.ok("BRK-ADJUST", key+" aged", w.PosOf(in), "the old window is slid to the present before it is carried")
					} else {
						r.violation("BRK-ADJUST", key+" aged", w.PosOf(in), "the old window is summed as it was when it was last used: calls that aged out of it long ago are carried into the new window as if they had just happened, and an idle breaker refuses for a whole interval after an Adjust")
					}
				} else {
					r.violation("BRK-ADJUST", key+" carry", w.PosOf(in), "a window of another shape starts empty: an Adjust that changes the interval forgets the calls that were counted, and `limit` more are admitted at once")
				}
			} else {
				r.violation("BRK-ADJUST", key, w.PosOf(in), "Adjust re-allocates the window unconditionally: the calls already counted are forgotten, and `limit` more are admitted at once")
			}
		})
	}
	if n == 0 {
		r.ok("BRK-ADJUST", "fn="+fname(adj), w.Pos(adj.Pos()), "Adjust never re-allocates the window")
	}
}
