// Package patterns holds tiny positive examples for the rules of rulint whose expected number of matches in
// rulio is zero (APPEND-CLOBBER, LOOP-ALIAS, LOOP-EXHAUST).  Every run of such a rule first has to find its
// example here; a matcher that stops matching fails the check (UNDECIDED) instead of passing vacuously.
// Nothing in this package is executed.
package patterns

type Job struct{ Next int }

type Timeline struct{ Jobs []*Job }

// AppendClobber: the inner append writes into the shared backing array before the tail is read.
func (t *Timeline) AppendClobber(at int, j *Job) {
	t.Jobs = append(append(t.Jobs[:at], j), t.Jobs[at:]...)
}

// AppendClobber2: the tail is sliced off first, but it still aliases the array the inner append writes into.
func (t *Timeline) AppendClobber2(at int, j *Job) {
	rest := t.Jobs[at:]
	t.Jobs = append(append(t.Jobs[:at], j), rest...)
}

// AppendInsertOK: the usual correct idioms must not match.
func (t *Timeline) AppendInsertOK(at int, j *Job) {
	t.Jobs = append(t.Jobs, nil)
	copy(t.Jobs[at+1:], t.Jobs[at:])
	t.Jobs[at] = j
}

func (t *Timeline) AppendInsertOK2(at int, j *Job) {
	t.Jobs = append(t.Jobs[:at], append([]*Job{j}, t.Jobs[at:]...)...)
}

func (t *Timeline) AppendDeleteOK(at int) {
	t.Jobs = append(t.Jobs[:at], t.Jobs[at+1:]...)
}

// CopyIntoEmpty: the destination has length 0 (only capacity), so copy copies nothing.
func CopyIntoEmpty(ps []string) []string {
	out := make([]string, 0, len(ps))
	copy(out, ps)
	return out
}

// CopyOK: a destination of the source's length.
func CopyOK(ps []string) []string {
	out := make([]string, len(ps))
	copy(out, ps)
	return out
}

// LoopAlias: one map, allocated before the loop, is filled in and appended on every iteration.
func LoopAlias(in []map[string]int) []map[string]int {
	var out []map[string]int
	more := make(map[string]int)
	for _, m := range in {
		for k, v := range m {
			more[k] = v
		}
		out = append(out, more)
	}
	return out
}

// LoopAliasOK: allocated per iteration.
func LoopAliasOK(in []map[string]int) []map[string]int {
	var out []map[string]int
	for _, m := range in {
		more := make(map[string]int)
		for k, v := range m {
			more[k] = v
		}
		out = append(out, more)
	}
	return out
}

// LoopEarlyExit: a break leaves the loop over the keys before all of them were visited.
func LoopEarlyExit(m map[string]int) int {
	n := 0
	for k, v := range m {
		if k == "rule" {
			break
		}
		n += v
	}
	return n
}

// LoopExhaustOK: continue skips one key, error returns leave early.
func LoopExhaustOK(m map[string]int) (int, error) {
	n := 0
	for k, v := range m {
		if k == "rule" {
			continue
		}
		if v < 0 {
			return 0, errNeg
		}
		n += v
	}
	return n, nil
}

type negErr struct{}

func (negErr) Error() string { return "negative" }

var errNeg error = negErr{}
