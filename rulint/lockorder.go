package main

// lockorder.go: LOCK-ORDER — the "acquired while holding" relation over lock classes must be acyclic.
//
// The LOCKSET engine already computes, per function and constant-bool specialisation, the locks that are
// certainly held at every point (must-hold, so an edge is never invented by a path on which the first lock is
// not held) and now also the lock classes a callee may take anywhere inside (transitively, VTA-resolved).
// An edge A -> B is recorded when B is acquired — directly or deep inside a callee — at a point where A is
// certainly held.  Two classes on a cycle can deadlock two requests that take them in opposite orders.
// Lock identity is by class (type + field), so an edge from a class to itself (two instances, or the
// privilege idiom that makes the inner acquisition a no-op) is listed as information and not judged.

import (
	"sort"
	"strings"
)

func ruleLockOrder(prop string) ruleFn {
	return func(w *World, r *Report) {
		r.Rule("LOCK-ORDER", "lock classes are taken in one global order: the relation `B is acquired (directly or inside a callee, VTA-resolved) at a point where A is certainly held` over the mutexes of rulio's types (type.field) has no cycle; two requests that take two locks in opposite orders can block each other for ever", 3)
		e := newLocksetEngine(w, nil)
		e.solveAll()
		concrete := func(id string) bool {
			return !(strings.HasPrefix(id, "local:") || strings.HasPrefix(id, "param:") || strings.HasPrefix(id, "unknown:"))
		}
		succ := map[string][]string{}
		var edges []*orderEdge
		for _, ed := range e.order {
			if !concrete(ed.From) || !concrete(ed.To) {
				continue
			}
			edges = append(edges, ed)
			if ed.From != ed.To {
				succ[ed.From] = append(succ[ed.From], ed.To)
			}
		}
		sort.Slice(edges, func(i, j int) bool {
			if edges[i].From != edges[j].From {
				return edges[i].From < edges[j].From
			}
			return edges[i].To < edges[j].To
		})
		reaches := func(a, b string) []string { // path a ->* b
			prev := map[string]string{a: ""}
			q := []string{a}
			for len(q) > 0 {
				x := q[0]
				q = q[1:]
				if x == b {
					var p []string
					for y := b; y != ""; y = prev[y] {
						p = append([]string{y}, p...)
					}
					return p
				}
				ss := append([]string(nil), succ[x]...)
				sort.Strings(ss)
				for _, y := range ss {
					if _, ok := prev[y]; !ok {
						prev[y] = x
						q = append(q, y)
					}
				}
			}
			return nil
		}
		for _, ed := range edges {
			key := "order=" + ed.From + " < " + ed.To
			if ed.From == ed.To {
				r.info("LOCK-ORDER", key, ed.Where, "same class taken while held (another instance, or an inner acquisition that the privilege idiom turns into a no-op): not judged; via "+strings.Join(ed.Chain, " > "))
				continue
			}
			if back := reaches(ed.To, ed.From); back != nil {
				// witness of the opposite direction: first edge of the way back
				var other *orderEdge
				if len(back) >= 2 {
					other = e.order[back[0]+"->"+back[1]]
				}
				detail := ed.To + " is acquired while " + ed.From + " is held (in " + ed.In + "), and the opposite order exists: " + strings.Join(back, " < ")
				if other != nil {
					detail += " (" + other.To + " acquired while " + other.From + " is held in " + other.In + " at " + other.Where + ")"
				}
				r.violation("LOCK-ORDER", key, ed.Where, detail, ed.Chain...)
				continue
			}
			r.ok("LOCK-ORDER", key, ed.Where, "in "+ed.In+" via "+strings.Join(ed.Chain, " > "))
		}
		r.Notes = append(r.Notes, "LOCK-ORDER: "+itoa(len(edges))+" ordered pairs of lock classes from "+itoa(e.fnAnalysed)+" analysed function specialisations")
	}
}

// LOCK-REENTRY (C13, C12): no call made while a state lock is held takes that lock again, except under the privilege.
func ruleLockReentry(prop string) ruleFn {
	return func(w *World, r *Report) {
		r.Rule("LOCK-REENTRY", "Go's mutexes are not re-entrant.  Wherever a function of a State implementation calls — directly, through a hook (a function value, VTA-resolved) or through the State interface — something that takes the state's own lock while that lock is held, the call is made under the context privilege (a grant such as withPrivilege dominates the call and no revoke lies between): that is the idiom that turns the inner slock into a no-op.  A hook that calls back into the state (state.Get) from a function that holds the lock without the privilege — LinearState.Load runs the add hook that way — blocks on its own goroutine's lock for ever, and every later request for the location with it", 1)
		e := newLocksetEngine(w, nil)
		e.solveAll()
		var p interface{}
		a := newLocAnchors(w)
		type keyT struct {
			fn   string
			lock string
		}
		seen := map[keyT]bool{}
		n := 0
		_ = p
		for _, se := range e.privSkipped {
			k := keyT{fname(se.Fn), se.Lock}
			if seen[k] {
				continue
			}
			seen[k] = true
			n++
			r.ok("LOCK-REENTRY", "fn="+k.fn+" lock="+k.lock, w.PosOf(se.At), "the inner acquisition happens under the privilege: via "+strings.Join(se.Chain, " > "))
		}
		bad := map[keyT]bool{}
		for _, se := range e.selfHeld {
			owner, isState := stateOwnerOf(a, se.Fn)
			if !isState || !strings.HasPrefix(se.Lock, owner+".") {
				continue
			}
			k := keyT{fname(se.Fn), se.Lock}
			if bad[k] {
				continue
			}
			bad[k] = true
			n++
			r.violation("LOCK-REENTRY", "fn="+k.fn+" lock="+k.lock, w.PosOf(se.At), "called with "+se.Lock+" held and without the privilege, and the callee takes "+se.Lock+": a self-deadlock; via "+strings.Join(se.Chain, " > "))
		}
		if n == 0 {
			r.exempt("LOCK-REENTRY", "none", "", "no state function calls something that takes its own lock: nothing to decide")
		}
	}
}
