package main

// gate.go: GATE engine — "every path from an entry to a sink passes the passing edge of a check".
//
// A gate is a call whose result is tested by a branch; the *pass edge* of that branch is the
// successor taken when the check succeeded.  A sink inside function F is locally gated iff its
// block is unreachable from F's entry once all pass edges of the gate are deleted (so a sink
// placed before the check, or a failing branch that only logs and falls through, is ungated).
// A function *exposes* a sink kind if some ungated path reaches a sink or a call to an exposing
// rulio function (VTA call graph).  Reports are raised at entry points.

import (
	"go/token"
	"go/types"
	"sort"

	"golang.org/x/tools/go/ssa"
)

type gateSpec struct {
	Name     string
	IsGate   func(c *ssa.CallCommon) bool
	FailWhen string // "nonnil" | "false" | "true": value of the tested result when the check refuses
	Idx      int    // result index tested (-1: single result)
}

type gateEngine struct {
	w      *World
	gate   []gateSpec // any of these gates counts (e.g. Enabled)
	isSink func(in ssa.Instruction) (string, bool)
	// skip: functions the analysis does not descend into (state implementations, gate internals)
	skip func(fn *ssa.Function) bool

	memoExpose map[*ssa.Function]*exposure
	inprog     map[*ssa.Function]bool
	memoReach  map[*ssa.Function]int // 0 unknown, 1 reaches sink, 2 does not
	solved     bool
	// stats
	fnsAnalysed   int
	sitesSeen     int
	gateTestsSeen int
}

type exposure struct {
	exposed bool
	chain   []string // fn -> fn -> sink description
	where   string
}

func newGateEngine(w *World, gates []gateSpec, isSink func(ssa.Instruction) (string, bool), skip func(*ssa.Function) bool) *gateEngine {
	return &gateEngine{w: w, gate: gates, isSink: isSink, skip: skip, memoExpose: map[*ssa.Function]*exposure{}, inprog: map[*ssa.Function]bool{}, memoReach: map[*ssa.Function]int{}}
}

// deriveWrappers adds, as gates of their own, the rulio functions that *wrap* a gate: functions with an error
// result none of whose success returns is reachable once the pass edges of the known gates are deleted (so a nil
// error from the wrapper implies that the wrapped check passed).  A refactoring that moves a check into a helper
// therefore keeps the rule satisfied.  Iterates to a fixed point (wrappers of wrappers).
func (g *gateEngine) deriveWrappers(scope func(*ssa.Function) bool) []string {
	var names []string
	known := map[*ssa.Function]bool{}
	for changed := true; changed; {
		changed = false
		for _, fn := range g.w.Funcs {
			if known[fn] || isTestFile(g.w, fn) || fn.Synthetic != "" || (scope != nil && !scope(fn)) {
				continue
			}
			idx := errorResultIndex(fn.Signature)
			if idx < 0 {
				continue
			}
			ef, nt := g.passEdgeFilter(fn)
			callsGate := false
			allInstrs(fn, func(in ssa.Instruction) {
				if c := callOf(in); c != nil {
					for _, gs := range g.gate {
						if gs.IsGate(c) {
							callsGate = true
						}
					}
				}
			})
			if nt == 0 && !callsGate {
				continue
			}
			returnsGateResult := func(in ssa.Instruction, assume map[ssa.Value]bool) bool {
				if !isSuccessReturn(in, assume) {
					return false
				}
				// `return gate(...)`: the wrapper's error is the gate's own verdict
				ret := in.(*ssa.Return)
				v := resolveSpill(ret.Results[idx])
				for _, gs := range g.gate {
					gs := gs
					if gs.FailWhen == "nonnil" && derivesFromCall(v, func(c *ssa.Call) bool { return gs.IsGate(c.Common()) }, gs.Idx) {
						return false
					}
				}
				return true
			}
			if h, _ := reachPSA(fn, nil, returnsGateResult, nil, ef); h != nil {
				continue
			}
			// (a wrapper that only ever returns the gate's own result has no tested branch: nt may be 0 for it)
			known[fn] = true
			changed = true
			f := fn
			g.gate = append(g.gate, gateSpec{Name: f.Name() + "(wraps " + g.gate[0].Name + ")", FailWhen: "nonnil", Idx: idx, IsGate: func(c *ssa.CallCommon) bool { return c.StaticCallee() == f }})
			names = append(names, fname(fn))
		}
	}
	return names
}

// passEdgeFilter deletes the pass edges of the gate tests in fn.
func (g *gateEngine) passEdgeFilter(fn *ssa.Function) (edgeFilter, int) {
	return g.passEdgeFilterIf(fn, nil)
}

// passEdgeFilterIf: only the gate calls that `accept` says yes to count (nil: all of them).
func (g *gateEngine) passEdgeFilterIf(fn *ssa.Function, accept func(c *ssa.Call) bool) (edgeFilter, int) {
	type edge struct {
		b *ssa.BasicBlock
		i int
	}
	del := map[edge]bool{}
	n := 0
	for _, b := range fn.Blocks {
		if len(b.Instrs) == 0 {
			continue
		}
		ifi, ok := b.Instrs[len(b.Instrs)-1].(*ssa.If)
		if !ok {
			continue
		}
		ct, ok := decodeIf(ifi)
		if !ok {
			continue
		}
		for _, gs := range g.gate {
			isCall := func(c *ssa.Call) bool { return gs.IsGate(c.Common()) && (accept == nil || accept(c)) }
			if !derivesFromCall(ct.V, isCall, gs.Idx) {
				continue
			}
			// which successor is the pass edge?
			// ct.TrueWhen describes succ[0]; the pass edge is where V != FailWhen.
			var passIdx int
			switch gs.FailWhen {
			case "nonnil":
				if ct.TrueWhen == "nonnil" {
					passIdx = 1
				} else if ct.TrueWhen == "nil" {
					passIdx = 0
				} else {
					continue
				}
			case "false":
				if ct.TrueWhen == "true" {
					passIdx = 0
				} else if ct.TrueWhen == "false" {
					passIdx = 1
				} else {
					continue
				}
			case "true":
				if ct.TrueWhen == "true" {
					passIdx = 1
				} else if ct.TrueWhen == "false" {
					passIdx = 0
				} else {
					continue
				}
			}
			del[edge{b, passIdx}] = true
			n++
		}
	}
	return func(from *ssa.BasicBlock, si int) bool { return !del[edge{from, si}] }, n
}

// solve computes the exposure of every rulio function as a least fixed point.
func (g *gateEngine) solve() {
	if g.solved {
		return
	}
	g.solved = true
	type ev struct {
		sink    string
		callees []*ssa.Function
		where   string
	}
	events := map[*ssa.Function][]ev{}
	for _, fn := range g.w.Funcs {
		if g.skip != nil && g.skip(fn) {
			continue
		}
		g.fnsAnalysed++
		ef, nt := g.passEdgeFilter(fn)
		g.gateTestsSeen += nt
		reachable := blocksReachable(fn, ef)
		for _, b := range fn.Blocks {
			if !reachable[b] {
				continue
			}
			for _, in := range b.Instrs {
				if desc, ok := g.isSink(in); ok {
					g.sitesSeen++
					events[fn] = append(events[fn], ev{sink: desc, where: g.w.PosOf(in)})
					continue
				}
				ci, ok := in.(ssa.CallInstruction)
				if !ok {
					continue
				}
				isG := false
				for _, gs := range g.gate {
					if gs.IsGate(ci.Common()) {
						isG = true
					}
				}
				if isG {
					continue
				}
				var cs []*ssa.Function
				for _, c := range g.w.Callees(ci) {
					if c != fn && c.Blocks != nil && g.w.IsRulio(c) && !(g.skip != nil && g.skip(c)) {
						cs = append(cs, c)
					}
				}
				if len(cs) > 0 {
					events[fn] = append(events[fn], ev{callees: cs, where: g.w.PosOf(in)})
				}
			}
		}
	}
	for changed := true; changed; {
		changed = false
		for _, fn := range g.w.Funcs {
			if e := g.memoExpose[fn]; e != nil && e.exposed {
				continue
			}
			for _, e := range events[fn] {
				if e.sink != "" {
					g.memoExpose[fn] = &exposure{true, []string{fname(fn), "sink " + e.sink}, e.where}
					changed = true
					break
				}
				found := false
				for _, c := range e.callees {
					if sub := g.memoExpose[c]; sub != nil && sub.exposed {
						g.memoExpose[fn] = &exposure{true, append([]string{fname(fn)}, sub.chain...), e.where}
						changed, found = true, true
						break
					}
				}
				if found {
					break
				}
			}
		}
	}
}

// exposes reports whether fn has an ungated path to a sink (directly or through callees).
func (g *gateEngine) exposes(fn *ssa.Function) *exposure {
	g.solve()
	if e := g.memoExpose[fn]; e != nil {
		return e
	}
	return &exposure{}
}

// reaches reports whether fn can reach a sink at all (gates ignored).
func (g *gateEngine) reaches(fn *ssa.Function) bool {
	seen := map[*ssa.Function]bool{}
	var rec func(f *ssa.Function) bool
	rec = func(f *ssa.Function) bool {
		if seen[f] {
			return false
		}
		seen[f] = true
		if f.Blocks == nil || !g.w.IsRulio(f) || (g.skip != nil && g.skip(f)) {
			return false
		}
		for _, b := range f.Blocks {
			for _, in := range b.Instrs {
				if _, ok := g.isSink(in); ok {
					return true
				}
				if ci, ok := in.(ssa.CallInstruction); ok {
					for _, c := range g.w.Callees(ci) {
						if rec(c) {
							return true
						}
					}
				}
			}
		}
		return false
	}
	return rec(fn)
}

// ---- shared anchors for the Location gates ------------------------------------------------

type locAnchors struct {
	w        *World
	Location *types.Named
	State    *types.Named
	stateImp map[*types.Named]bool
}

func newLocAnchors(w *World) *locAnchors {
	a := &locAnchors{w: w, Location: w.Named("core", "Location"), State: w.Named("core", "State"), stateImp: map[*types.Named]bool{}}
	for _, n := range w.Implementers(w.Iface("core", "State")) {
		a.stateImp[n] = true
	}
	if len(a.stateImp) < 2 {
		undecided("anchor: expected >= 2 implementations of core.State, found %d", len(a.stateImp))
	}
	return a
}

func (a *locAnchors) isLocMethod(c *ssa.CallCommon, name string) bool {
	o := calleeObj(c)
	return isMethodOf(o, modPath+"/core", "Location", name)
}

// stateCall: a call of State method `names` through the interface or on an implementation.
func (a *locAnchors) stateCall(in ssa.Instruction, names map[string]bool) (string, bool) {
	c := callOf(in)
	if c == nil {
		return "", false
	}
	o := calleeObj(c)
	if o == nil || !names[o.Name()] {
		return "", false
	}
	if isIfaceMethodCall(c, a.State, o.Name()) {
		return "State." + o.Name(), true
	}
	return "", false
}

// inStateLayer: methods of State implementations and closures inside them.
func (a *locAnchors) inStateLayer(fn *ssa.Function) bool {
	fn = outermost(fn)
	if fn.Signature.Recv() != nil {
		if n := namedOf(fn.Signature.Recv().Type()); n != nil && a.stateImp[n] {
			return true
		}
	}
	return false
}

func (a *locAnchors) exportedLocationMethods() []*ssa.Function {
	var out []*ssa.Function
	for _, f := range a.w.MethodsOf(a.Location) {
		if f.Object() != nil && f.Object().Exported() {
			out = append(out, f)
		}
	}
	return out
}

// roots: rulio non-test functions with bodies and no rulio callers (incl. reflectively called closures)
func (a *locAnchors) roots() []*ssa.Function {
	var out []*ssa.Function
	for _, f := range a.w.Funcs {
		if isTestFile(a.w, f) || f.Synthetic != "" {
			continue
		}
		if len(a.w.Callers(f)) == 0 {
			out = append(out, f)
		}
	}
	sort.Slice(out, func(i, j int) bool { return out[i].String() < out[j].String() })
	return out
}

// ---- whose gate? ---------------------------------------------------------------------------

type subjectMiss struct {
	fn    *ssa.Function
	where string
	gate  string
	call  string
}

// subjectOf names the location a call is made on, when that is a parameter or a captured variable of the function
// (the two cases in which two different names are two different locations as far as the function knows).
func subjectOf(c *ssa.CallCommon, loc *types.Named) ssa.Value {
	if c.IsInvoke() || len(c.Args) == 0 || c.StaticCallee() == nil || c.StaticCallee().Signature.Recv() == nil {
		return nil
	}
	if namedOf(c.Args[0].Type()) != loc {
		return nil
	}
	v := resolveSpill(c.Args[0])
	if u, ok := v.(*ssa.UnOp); ok && u.Op == token.MUL {
		if fv, isF := u.X.(*ssa.FreeVar); isF {
			for _, ref := range *fv.Referrers() {
				if st, isS := ref.(*ssa.Store); isS && st.Addr == ssa.Value(fv) {
					return nil
				}
			}
			return fv
		}
	}
	switch v.(type) {
	case *ssa.Parameter, *ssa.FreeVar:
		return v
	}
	return nil
}

// subjectMismatches: a call on one location that lies behind a gate (it cannot be reached once the pass edges of all
// gates are deleted) and whose callee is exposed by itself, but which can be reached when only the gates asked of THAT
// location are deleted: the only gate in front of it was asked of another location.
func (g *gateEngine) subjectMismatches(loc *types.Named) (oks int, bad []subjectMiss) {
	g.solve()
	for _, fn := range g.w.Funcs {
		if g.skip != nil && g.skip(fn) {
			continue
		}
		efAll, nt := g.passEdgeFilter(fn)
		if nt == 0 {
			continue
		}
		reachAll := blocksReachable(fn, efAll)
		for _, b := range fn.Blocks {
			if reachAll[b] {
				continue
			}
			for _, in := range b.Instrs {
				ci, ok := in.(ssa.CallInstruction)
				if !ok {
					continue
				}
				subj := subjectOf(ci.Common(), loc)
				if subj == nil {
					continue
				}
				isG := false
				for _, gs := range g.gate {
					if gs.IsGate(ci.Common()) {
						isG = true
					}
				}
				if isG {
					continue
				}
				exposed := false
				for _, c := range g.w.Callees(ci) {
					if e := g.memoExpose[c]; e != nil && e.exposed {
						exposed = true
					}
				}
				if !exposed {
					continue
				}
				gateName := ""
				efOwn, _ := g.passEdgeFilterIf(fn, func(c *ssa.Call) bool {
					gsub := subjectOf(c.Common(), loc)
					if gsub == nil || gsub == subj {
						return true
					}
					gateName = c.Common().StaticCallee().Name()
					return false
				})
				if blocksReachable(fn, efOwn)[b] {
					bad = append(bad, subjectMiss{fn, g.w.PosOf(in), gateName, ci.Common().StaticCallee().Name()})
				} else {
					oks++
				}
			}
		}
	}
	return
}
