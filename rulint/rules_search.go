package main

// rules_search.go: C02 — fact search (TERM-SAME, READ-PURE, SEARCH-REMATCH, TERM-CONTAINERS, ID-KEY).

import (
	"go/types"
	"sort"
	"strings"

	"golang.org/x/tools/go/ssa"
)

func ruleTermSame(w *World, r *Report) {
	r.Rule("TERM-SAME", "the terms a fact is indexed under, un-indexed from and searched by all come from the same extraction function (core.ExtractTerms) applied to, respectively, the stored fact, the stored fact and the pattern: every call of TermIndex.Add / RemIdTerms / Search made by IndexedState takes terms derived from ExtractTerms", 3)
	et := w.Func("core", "ExtractTerms")
	n := w.Named("core", "IndexedState")
	fromET := func(v ssa.Value) bool {
		return dependsOn(v, func(x ssa.Value) bool {
			c, ok := x.(*ssa.Call)
			return ok && c.Common().StaticCallee() == et
		})
	}
	for _, fn := range w.MethodsOf(n) {
		counts := map[string]int{}
		allInstrs(fn, func(in ssa.Instruction) {
			c := callOf(in)
			if c == nil {
				return
			}
			o := calleeObj(c)
			if o == nil || !isMethodOf(o, modPath+"/core", "TermIndex", o.Name()) {
				return
			}
			var terms ssa.Value
			switch o.Name() {
			case "Add": // (ti, ctx, term, id)
				terms = c.Args[2]
			case "RemIdTerms": // (ti, ctx, terms, id)
				terms = c.Args[2]
			case "Search": // (ti, ctx, terms)
				terms = c.Args[2]
			default:
				return
			}
			counts[o.Name()]++
			key := "fn=" + fname(fn) + " call=TermIndex." + o.Name()
			// a helper that is handed the terms: every caller hands it terms from ExtractTerms
			viaParam := false
			if !fromET(terms) {
				for i, p := range fn.Params {
					if !dependsOn(terms, func(x ssa.Value) bool { return x == ssa.Value(p) }) {
						continue
					}
					node := w.CG.Nodes[fn]
					if node == nil || len(node.In) == 0 {
						continue
					}
					all := true
					for _, e := range node.In {
						cc := e.Site.Common()
						if cc.StaticCallee() != fn || i >= len(cc.Args) || !fromET(cc.Args[i]) {
							all = false
						}
					}
					if all {
						viaParam = true
					}
				}
			}
			if fromET(terms) || viaParam {
				r.ok("TERM-SAME", key, w.PosOf(in), "terms come from ExtractTerms")
			} else {
				r.violation("TERM-SAME", key, w.PosOf(in), "the term index is used with terms that do not come from ExtractTerms: facts become unfindable or stay findable after removal")
			}
		})
	}
}

func ruleReadPure(w *World, r *Report) {
	r.Rule("READ-PURE", "the read operations of the in-memory indexes do not write through their receiver: TermIndex.Search / TermCard and PatternIndex.searchPairs / SearchPatternsMap only mutate objects they allocated themselves (a candidate set taken straight from the index and then pruned would delete ids from the index: a search becomes a write)", 4)
	e := newLocksetEngine(w, nil)
	for _, spec := range [][2]string{{"TermIndex", "Search"}, {"TermIndex", "TermCard"}, {"PatternIndex", "searchPairs"}, {"PatternIndex", "SearchPatternsMap"}} {
		fn := w.TryMethod("core", spec[0], spec[1])
		key := "fn=core." + spec[0] + "." + spec[1]
		if fn == nil {
			r.violation("READ-PURE", key, "", "read operation not found (anchor changed)")
			continue
		}
		if e.mutatesRecv(fn) {
			r.violation("READ-PURE", key, w.Pos(fn.Pos()), "this read operation writes through its receiver (a set or node obtained from the index is modified in place)")
		} else {
			r.ok("READ-PURE", key, w.Pos(fn.Pos()), "no write reaches the receiver's maps")
		}
	}
}

func ruleSearchRematch(w *World, r *Report) {
	r.Rule("SEARCH-REMATCH", "in both State implementations a search result is emitted only under a test of the number of bindings returned by core.Matches(pattern, storedFact) for that very fact; LinearState.search ranges over the whole fact map", 2)
	a := newLocAnchors(w)
	matches := w.Func("core", "Matches")
	for n := range a.stateImp {
		owner := typeKey(n)
		fn := w.TryMethod("core", n.Obj().Name(), "search")
		if fn == nil {
			undecided("SEARCH-REMATCH: %s.search not found", owner)
		}
		var emits []ssa.Instruction
		emitsOf := func(g *ssa.Function) []ssa.Instruction {
			var out []ssa.Instruction
			allInstrs(g, func(in ssa.Instruction) {
				c := callOf(in)
				if c == nil {
					return
				}
				if b, ok := c.Value.(*ssa.Builtin); ok && b.Name() == "append" && len(c.Args) == 2 {
					// appends of SearchResult values
					if sl, ok := c.Args[0].Type().Underlying().(*types.Slice); ok {
						if nn := namedOf(sl.Elem()); nn != nil && nn.Obj().Name() == "SearchResult" {
							out = append(out, in)
						}
					}
				}
			})
			return out
		}
		emits = emitsOf(fn)
		if len(emits) == 0 {
			// the matching loop moved into a helper of the state (`search` = term lookup + `matchIds`): decide there
			allInstrs(fn, func(in ssa.Instruction) {
				c := callOf(in)
				if c == nil || c.StaticCallee() == nil || len(emits) > 0 {
					return
				}
				if o2, ok := stateOwnerOf(a, c.StaticCallee()); ok && o2 == owner && c.StaticCallee() != fn {
					if es := emitsOf(c.StaticCallee()); len(es) > 0 {
						emits = es
						fn = c.StaticCallee()
					}
				}
			})
		}
		key := "fn=" + fname(fn)
		if len(emits) == 0 {
			r.exempt("SEARCH-REMATCH", key, w.Pos(fn.Pos()), "cannot find where search emits results: shape not recognised, not decided")
			continue
		}
		isMatchLen := func(v ssa.Value) bool {
			c, ok := v.(*ssa.Call)
			if !ok {
				return false
			}
			b, ok := c.Common().Value.(*ssa.Builtin)
			if !ok || b.Name() != "len" {
				return false
			}
			return dependsOn(c.Common().Args[0], func(x ssa.Value) bool {
				mc, ok := x.(*ssa.Call)
				if !ok || mc.Common().StaticCallee() != matches {
					return false
				}
				// second argument derives from the fact map
				return len(mc.Common().Args) >= 3 && dependsOn(mc.Common().Args[2], func(y ssa.Value) bool { return loadedFromFactMap(owner, y) })
			})
		}
		for _, em := range emits {
			if controlDependsOn(fn, em, isMatchLen) {
				r.ok("SEARCH-REMATCH", key, w.PosOf(em), "emission is control dependent on len(Matches(pattern, storedFact))")
			} else {
				r.violation("SEARCH-REMATCH", key, w.PosOf(em), "a result is emitted without a test of Matches(pattern, storedFact): index candidates are returned as matches")
			}
		}
	}
}

func ruleTermContainers(w *World, r *Report) {
	r.Rule("TERM-CONTAINERS", "sibling agreement: every container type the matcher-side conversion (core.cast) descends into is descended into by the term extraction (extractTermsAux); a container the matcher understands but the extractor skips makes a matching fact unfindable under indexed state", 1)
	kinds := func(fn *ssa.Function) map[string]bool {
		set := map[string]bool{}
		allInstrs(fn, func(in ssa.Instruction) {
			ta, ok := in.(*ssa.TypeAssert)
			if !ok {
				return
			}
			switch ta.AssertedType.Underlying().(type) {
			case *types.Map, *types.Slice:
				set[types.TypeString(ta.AssertedType, func(p *types.Package) string { return p.Name() })] = true
			}
		})
		return set
	}
	cast := w.Func("core", "cast")
	ext := w.Func("core", "extractTermsAux")
	kc, ke := kinds(cast), kinds(ext)
	var missing []string
	for k := range kc {
		if !ke[k] {
			missing = append(missing, k)
		}
	}
	// generic slices through reflection (ISlice)
	usesISlice := false
	allInstrs(cast, func(in ssa.Instruction) {
		if c := callOf(in); c != nil && isPkgFunc(calleeObj(c), modPath+"/core", "ISlice") {
			usesISlice = true
		}
	})
	extISlice := false
	allInstrs(ext, func(in ssa.Instruction) {
		if c := callOf(in); c != nil && isPkgFunc(calleeObj(c), modPath+"/core", "ISlice") {
			extISlice = true
		}
	})
	if usesISlice && !extISlice {
		missing = append(missing, "typed slices (ISlice)")
	}
	sort.Strings(missing)
	if len(missing) == 0 {
		r.ok("TERM-CONTAINERS", "cast vs extractTermsAux", w.Pos(ext.Pos()), "same containers")
	} else {
		r.violation("TERM-CONTAINERS", "cast vs extractTermsAux missing="+strings.Join(missing, "+"), w.Pos(ext.Pos()), "core.cast descends into "+strings.Join(missing, ", ")+" but extractTermsAux does not: a fact holding such a container (Go API callers) matches but is never a candidate")
	}
}

func ruleIdKey(w *World, r *Report) {
	r.Rule("ID-KEY", "the id a State's Add returns is the key under which the fact is kept in memory and the key of the storage record", 2)
	a := newLocAnchors(w)
	st := w.Named("core", "Storage")
	for n := range a.stateImp {
		owner := typeKey(n)
		add := w.Method("core", n.Obj().Name(), "Add")
		key := "fn=" + fname(add)
		// the returned id on success returns
		var ids []ssa.Value
		allInstrs(add, func(in ssa.Instruction) {
			if ret, ok := in.(*ssa.Return); ok && len(ret.Results) == 2 {
				v := resolveSpill(ret.Results[0])
				if _, isConst := v.(*ssa.Const); !isConst {
					ids = append(ids, v)
				}
			}
		})
		// storage key
		okStore, okMem := false, false
		allInstrs(add, func(in ssa.Instruction) {
			c := callOf(in)
			if c == nil {
				return
			}
			if o := calleeObj(c); o != nil && o.Name() == "Add" && isIfaceMethodCall(c, st, "Add") {
				pair := c.Args[len(c.Args)-1]
				for _, id := range ids {
					id := id
					if dependsOn(pair, func(x ssa.Value) bool { return x == id }) {
						okStore = true
					}
				}
			}
		})
		// memory key: in Add itself or in the same-type helper whose first result is the id
		setters, _ := factMapHelpers(w, a, owner)
		check := func(fn *ssa.Function, idv func(ssa.Value) bool) {
			allInstrs(fn, func(in ssa.Instruction) {
				// `put(id, fact)`: sets the entry for its caller
				if c := callOf(in); c != nil && c.StaticCallee() != nil {
					if i, isHelper := setters[c.StaticCallee()]; isHelper && i < len(c.Args) && (idv(c.Args[i]) || idv(resolveSpill(c.Args[i]))) {
						okMem = true
					}
				}
				if mu, ok := in.(*ssa.MapUpdate); ok && isFieldLoad(mu.Map, owner, stateFactField[owner]) && (idv(mu.Key) || idv(resolveSpill(mu.Key))) {
					okMem = true
				}
			})
		}
		for _, id := range ids {
			id := id
			check(add, func(k ssa.Value) bool { return k == id })
			if ex, ok := id.(*ssa.Extract); ok && ex.Index == 0 {
				if c, ok := ex.Tuple.(*ssa.Call); ok {
					if f := c.Common().StaticCallee(); f != nil {
						if o2, ok := stateOwnerOf(a, f); ok && o2 == owner {
							// helper: its returned id is the key it stores under
							var hid []ssa.Value
							allInstrs(f, func(in ssa.Instruction) {
								if ret, ok := in.(*ssa.Return); ok && len(ret.Results) > 0 {
									hid = append(hid, resolveSpill(ret.Results[0]))
								}
							})
							check(f, func(k ssa.Value) bool {
								for _, h := range hid {
									if h == k {
										return true
									}
								}
								return false
							})
						}
					}
				}
			}
		}
		if okStore && okMem {
			r.ok("ID-KEY", key, w.Pos(add.Pos()), "returned id = memory key = storage key")
		} else {
			r.violation("ID-KEY", key, w.Pos(add.Pos()), "the id returned by Add is not the key of the memory entry and of the storage record")
		}
	}
}

func init() {
	register(&propertySpec{
		ID:      "C02",
		Explain: "Static provenance / purity / sibling rules for fact search: same term extraction on add, remove and search; searches do not write the indexes; results are re-matched against the stored fact; the extractor covers the matcher's containers; the returned id is the key. Does not decide that terms(pattern) is a subset of terms(fact) for every matching pair, the intersection logic, uniqueness of generated ids or get-after-write values.",
		Rules:   []ruleFn{ruleTermSame, ruleReadPure, ruleSearchRematch, ruleTermContainers, ruleIdKey, ruleLoadFresh, rulePropMarker, ruleLoopExhaust("C02"), ruleCascade, ruleTermFilter("C02"), ruleTermPrepared("C02"), ruleFactIdxLast("C02"), ruleClockUnits("C02"), ruleTermNumbers("C02")},
	})
}
