package main

// shared.go: SHARED-WRITE (C12) — objects that live in a lock-guarded container of a state (the parsed rules in
// `cachedRules`, the stored facts in the fact map) stay shared after they were handed out: whoever got one from
// FindCachedRules / Get / Search holds a pointer into the state, and the state's lock is not held any more.
// A write through such a pointer outside the state's methods is a write to shared memory without its lock.
//
// Whole-program taint over SSA values, two bits per value:
//   S  the value is (or points into) a shared object
//   C  the value is a freshly built container / struct that carries shared references (reading a reference out
//      of it gives an S value; writing its own slots is harmless)
// Summaries per function (bits per result, bits per parameter from all call sites) are iterated to a fixed point
// over static and VTA-resolved calls; closures write into their parent's captured variables.

import (
	"go/token"
	"go/types"
	"sort"

	"golang.org/x/tools/go/ssa"
)

const (
	kS = 1
	kC = 2
)

type sharedEngine struct {
	w *World
	// guarded container fields: "core.IndexedState.cachedRules" ...
	fields map[string]bool
	ret    map[*ssa.Function][]int
	par    map[string][]int           // function + constant-bool specialisation -> kinds of the parameters
	specs  map[*ssa.Function][]string // specialisations under which a function receives shared arguments
	pruner *locksetEngine
	// captured variables (allocs of the parent) that a closure filled with shared references
	capt    map[ssa.Value]int
	changed bool
}

func isRefType(t types.Type) bool {
	switch t.Underlying().(type) {
	case *types.Pointer, *types.Map, *types.Slice, *types.Interface, *types.Chan, *types.Signature:
		return true
	}
	return false
}

func (e *sharedEngine) guardedLoad(v ssa.Value) bool {
	n, f, _, ok := loadedField(v)
	return ok && e.fields[typeKey(n)+"."+f]
}

type sharedFn struct {
	e    *sharedEngine
	fn   *ssa.Function
	spec string
	live map[*ssa.BasicBlock]bool
	memo map[ssa.Value]int
	busy map[ssa.Value]bool
	seed map[ssa.Value]int
}

func parKey(fn *ssa.Function, spec string) string { return fn.String() + "#" + spec }

func (e *sharedEngine) analyse(fn *ssa.Function, spec string) *sharedFn {
	sf := &sharedFn{e: e, fn: fn, spec: spec, memo: map[ssa.Value]int{}, busy: map[ssa.Value]bool{}, seed: map[ssa.Value]int{}}
	sf.live = blocksReachable(fn, e.pruner.pruner(fn, spec))
	// what is stored into a guarded container is shared from then on
	allInstrs(fn, func(in ssa.Instruction) {
		if mu, ok := in.(*ssa.MapUpdate); ok && e.guardedLoad(mu.Map) && isRefType(mu.Value.Type()) {
			sf.seed[mu.Value] |= kS
		}
	})
	return sf
}

func (sf *sharedFn) callees(c *ssa.Call) []*ssa.Function {
	if f := c.Common().StaticCallee(); f != nil {
		return []*ssa.Function{f}
	}
	var out []*ssa.Function
	for _, f := range sf.e.w.Callees(c) {
		if sf.e.w.IsRulio(f) {
			out = append(out, f)
		}
	}
	return out
}

func (sf *sharedFn) kind(v ssa.Value) int {
	if v == nil {
		return 0
	}
	if k, ok := sf.memo[v]; ok {
		return k
	}
	if sf.busy[v] {
		return 0
	}
	sf.busy[v] = true
	k := sf.compute(v) | sf.seed[v]
	delete(sf.busy, v)
	sf.memo[v] = k
	return k
}

// out of a container / object: a reference read out of something shared or carrying is shared
func (sf *sharedFn) readFrom(x ssa.Value, result types.Type) int {
	if sf.e.guardedLoad(x) {
		if isRefType(result) {
			return kS
		}
		return 0
	}
	k := sf.kind(x)
	if k == 0 || !isRefType(result) {
		return 0
	}
	return kS
}

func (sf *sharedFn) compute(v ssa.Value) int {
	e := sf.e
	switch x := v.(type) {
	case *ssa.Parameter:
		ps := e.par[parKey(sf.fn, sf.spec)]
		for i, p := range sf.fn.Params {
			if p == x && i < len(ps) {
				return ps[i]
			}
		}
	case *ssa.FreeVar:
		// the captured variable of the parent
		if par := sf.fn.Parent(); par != nil {
			k := 0
			allInstrs(par, func(in ssa.Instruction) {
				mc, ok := in.(*ssa.MakeClosure)
				if !ok || mc.Fn != ssa.Value(sf.fn) {
					return
				}
				for i, fv := range sf.fn.FreeVars {
					if fv == x && i < len(mc.Bindings) {
						k |= e.capt[mc.Bindings[i]]
					}
				}
			})
			return k // the kinds of what the parent's variable holds (a load of the free variable yields that)
		}
	case *ssa.Call:
		k := 0
		for _, f := range sf.callees(x) {
			for _, b := range e.ret[f] {
				k |= b
			}
		}
		return k
	case *ssa.Extract:
		if c, ok := x.Tuple.(*ssa.Call); ok {
			k := 0
			for _, f := range sf.callees(c) {
				if x.Index < len(e.ret[f]) {
					k |= e.ret[f][x.Index]
				}
			}
			return k
		}
		if nx, ok := x.Tuple.(*ssa.Next); ok {
			if x.Index == 2 { // the value of a map range
				if rg, ok := nx.Iter.(*ssa.Range); ok {
					return sf.readFrom(rg.X, x.Type())
				}
			}
			return 0
		}
		if lk, ok := x.Tuple.(*ssa.Lookup); ok && x.Index == 0 {
			return sf.readFrom(lk.X, x.Type())
		}
		if ta, ok := x.Tuple.(*ssa.TypeAssert); ok && x.Index == 0 {
			return sf.kind(ta.X)
		}
		return sf.kind(x.Tuple)
	case *ssa.Lookup:
		if x.CommaOk {
			return 0
		}
		return sf.readFrom(x.X, x.Type())
	case *ssa.Index:
		return sf.readFrom(x.X, x.Type())
	case *ssa.Field:
		return sf.readFrom(x.X, x.Type())
	case *ssa.UnOp:
		if x.Op != token.MUL {
			return 0
		}
		if fv, ok := x.X.(*ssa.FreeVar); ok {
			return sf.kind(fv)
		}
		if a, ok := x.X.(*ssa.Alloc); ok {
			// a local variable: what was stored into it
			k := e.capt[a]
			for _, ref := range *a.Referrers() {
				if st, ok := ref.(*ssa.Store); ok && st.Addr == ssa.Value(a) {
					k |= sf.kind(st.Val)
				}
			}
			return k
		}
		if sf.e.guardedLoad(x) {
			return 0 // the guarded container itself, inside its owner
		}
		// a load through an address inside a shared / carrying object
		ka := sf.kind(x.X)
		if ka == 0 {
			return 0
		}
		if isRefType(x.Type()) {
			return kS
		}
		if _, isStruct := x.Type().Underlying().(*types.Struct); isStruct {
			return kC // a copy of a struct that holds shared references
		}
		return 0
	case *ssa.FieldAddr:
		return sf.kind(x.X)
	case *ssa.IndexAddr:
		return sf.kind(x.X)
	case *ssa.Slice:
		return sf.kind(x.X)
	case *ssa.Phi:
		k := 0
		for _, ed := range x.Edges {
			k |= sf.kind(ed)
		}
		return k
	case *ssa.ChangeType:
		return sf.kind(x.X)
	case *ssa.Convert:
		if isRefType(x.Type()) {
			return sf.kind(x.X)
		}
	case *ssa.MakeInterface:
		return sf.kind(x.X)
	case *ssa.ChangeInterface:
		return sf.kind(x.X)
	case *ssa.TypeAssert:
		return sf.kind(x.X)
	case *ssa.MakeMap, *ssa.MakeSlice, *ssa.Alloc:
		// a fresh container: carries what is put into it
		k := e.capt[v]
		refs := v.Referrers()
		if refs == nil {
			return k
		}
		var scan func(refs []ssa.Instruction)
		scan = func(refs []ssa.Instruction) {
			for _, ref := range refs {
				switch y := ref.(type) {
				case *ssa.MapUpdate:
					if y.Map == v && sf.kind(y.Value) != 0 {
						k |= kC
					}
				case *ssa.Store:
					if sf.kind(y.Val) != 0 && y.Val != v {
						k |= kC
					}
				case *ssa.FieldAddr:
					if r := y.Referrers(); r != nil {
						scan(*r)
					}
				case *ssa.IndexAddr:
					if r := y.Referrers(); r != nil {
						scan(*r)
					}
				}
			}
		}
		scan(*refs)
		return k
	}
	return 0
}

// solve iterates the summaries to a fixed point.
func (e *sharedEngine) solve() {
	for round := 0; round < 12; round++ {
		e.changed = false
		for _, fn := range e.w.Funcs {
			if isTestFile(e.w, fn) || fn.Synthetic != "" {
				continue
			}
			for _, spec := range append([]string{""}, e.specs[fn]...) {
				sf := e.analyse(fn, spec)
				// results
				allInstrs(fn, func(in ssa.Instruction) {
					if !sf.live[in.Block()] {
						return
					}
					switch x := in.(type) {
					case *ssa.Return:
						for i, rv := range x.Results {
							k := sf.kind(resolveSpill(rv)) | sf.kind(rv)
							if k != 0 {
								for len(e.ret[fn]) <= i {
									e.ret[fn] = append(e.ret[fn], 0)
								}
								if e.ret[fn][i]|k != e.ret[fn][i] {
									e.ret[fn][i] |= k
									e.changed = true
								}
							}
						}
					case ssa.CallInstruction:
						c := x.Common()
						var fs []*ssa.Function
						args := c.Args
						if f := c.StaticCallee(); f != nil {
							fs = []*ssa.Function{f}
						} else {
							for _, f := range e.w.Callees(x) {
								if e.w.IsRulio(f) {
									fs = append(fs, f)
								}
							}
							if c.IsInvoke() {
								args = append([]ssa.Value{c.Value}, args...)
							}
						}
						for ai, a := range args {
							k := sf.kind(a)
							if k == 0 {
								continue
							}
							for _, f := range fs {
								if !e.w.IsRulio(f) || f.Blocks == nil {
									continue
								}
								sp := specOf(c, f)
								pk := parKey(f, sp)
								for len(e.par[pk]) <= ai {
									e.par[pk] = append(e.par[pk], 0)
								}
								if e.par[pk][ai]|k != e.par[pk][ai] {
									e.par[pk][ai] |= k
									e.changed = true
									have := false
									for _, s2 := range e.specs[f] {
										if s2 == sp {
											have = true
										}
									}
									if !have && sp != "" {
										e.specs[f] = append(e.specs[f], sp)
									}
								}
							}
						}
					case *ssa.MapUpdate:
						// a closure filling a captured variable of its parent
						e.noteCapture(sf, x.Map, x.Value)
					case *ssa.Store:
						e.noteCapture(sf, x.Addr, x.Val)
					}
				})
			}
		}
		if !e.changed {
			return
		}
	}
	undecided("SHARED-WRITE: summaries did not stabilise")
}

// noteCapture: inside a closure, a shared reference is put into something reached from a free variable.
func (e *sharedEngine) noteCapture(sf *sharedFn, target, val ssa.Value) {
	if sf.fn.Parent() == nil || sf.kind(val) == 0 {
		return
	}
	root := target
	for i := 0; i < 8; i++ {
		switch x := root.(type) {
		case *ssa.UnOp:
			root = x.X
			continue
		case *ssa.FieldAddr:
			root = x.X
			continue
		case *ssa.IndexAddr:
			root = x.X
			continue
		}
		break
	}
	fv, ok := root.(*ssa.FreeVar)
	if !ok {
		return
	}
	par := sf.fn.Parent()
	allInstrs(par, func(in ssa.Instruction) {
		mc, ok := in.(*ssa.MakeClosure)
		if !ok || mc.Fn != ssa.Value(sf.fn) {
			return
		}
		for i, f2 := range sf.fn.FreeVars {
			if f2 == fv && i < len(mc.Bindings) {
				b := mc.Bindings[i]
				if e.capt[b]|kC != e.capt[b] {
					e.capt[b] |= kC
					e.changed = true
				}
			}
		}
	})
}

type sharedWrite struct {
	Fn    *ssa.Function
	In    ssa.Instruction
	What  string
	Field string
}

func (e *sharedEngine) writes(skip func(fn *ssa.Function) bool) []sharedWrite {
	var out []sharedWrite
	for _, fn := range e.w.Funcs {
		if isTestFile(e.w, fn) || fn.Synthetic != "" || skip(fn) {
			continue
		}
		for _, spec := range append([]string{""}, e.specs[fn]...) {
			sf := e.analyse(fn, spec)
			allInstrs(fn, func(in ssa.Instruction) {
				if !sf.live[in.Block()] {
					return
				}
				switch x := in.(type) {
				case *ssa.Store:
					base := addrRoot(x.Addr)
					if base == x.Addr {
						return // a plain store through a pointer value: *p = v
					}
					if _, isAlloc := base.(*ssa.Alloc); isAlloc {
						return
					}
					if sf.kind(base)&kS != 0 {
						field := "?"
						if fa, ok := x.Addr.(*ssa.FieldAddr); ok {
							if n, f, _, ok := fieldOf(fa); ok {
								field = typeKey(n) + "." + f
							}
						}
						out = append(out, sharedWrite{fn, in, "store", field})
					}
				case *ssa.MapUpdate:
					if e.guardedLoad(x.Map) {
						return
					}
					if sf.kind(x.Map)&kS != 0 {
						out = append(out, sharedWrite{fn, in, "map update", "map element"})
					}
				}
			})
		}
	}
	sort.Slice(out, func(i, j int) bool {
		if out[i].Fn.String() != out[j].Fn.String() {
			return out[i].Fn.String() < out[j].Fn.String()
		}
		return out[i].In.Pos() < out[j].In.Pos()
	})
	return out
}

func ruleSharedWrite(w *World, r *Report) {
	r.Rule("SHARED-WRITE", "objects kept in a lock-guarded container of a state (the parsed rules of `cachedRules`, the stored facts of the fact map) stay shared after FindCachedRules / Get / Search handed them out, and the state's lock is no longer held by then: no function outside the state implementations writes through a reference that derives (whole-program taint over results, parameters, containers and closures) from such an object.  Two requests that dispatch the same cached rule would otherwise write the same memory concurrently", 1)
	a := newLocAnchors(w)
	e := &sharedEngine{w: w, fields: map[string]bool{}, ret: map[*ssa.Function][]int{}, par: map[string][]int{}, specs: map[*ssa.Function][]string{}, capt: map[ssa.Value]int{}, pruner: newLocksetEngine(w, nil)}
	for n := range a.stateImp {
		k := typeKey(n)
		if st := structOf(n); st != nil {
			for i := 0; i < st.NumFields(); i++ {
				if st.Field(i).Name() == "cachedRules" {
					e.fields[k+".cachedRules"] = true
				}
			}
		}
		if ff := stateFactField[k]; ff != "" {
			e.fields[k+"."+ff] = true
		}
	}
	if len(e.fields) < 2 {
		undecided("SHARED-WRITE: guarded container fields not found")
	}
	e.solve()
	ws := e.writes(func(fn *ssa.Function) bool {
		_, isState := stateOwnerOf(a, fn)
		return isState
	})
	tainted := 0
	for _, rs := range e.ret {
		for _, k := range rs {
			if k != 0 {
				tainted++
				break
			}
		}
	}
	r.stat("SHARED-WRITE.functions_returning_shared", tainted)
	seen := map[string]bool{}
	for _, x := range ws {
		key := "field=" + x.Field + " in=" + fname(x.Fn)
		if seen[key] {
			continue
		}
		seen[key] = true
		r.violation("SHARED-WRITE", key, w.PosOf(x.In), x.What+" through a reference to an object that is kept in a state's guarded container: the state's lock is not held here, concurrent requests that were handed the same object write the same memory")
	}
	r.ok("SHARED-WRITE", "scope=functions outside the state implementations", "", itoa(tainted)+" functions return or carry shared objects; every write through one is listed")
}
