package main

// rules_fanout.go: C04 (FAN-OWN, FAN-SYNC, FAN-EVERY) and C05 (MOD-PURE).

import (
	"go/token"
	"go/types"

	"golang.org/x/tools/go/ssa"
)

// ---- MOD analysis: may fn write through parameter idx? ------------------------------------------------

type modEngine struct {
	w    *World
	memo map[string]int
	// limit analysis to functions for which this returns true (others: assumed not to modify)
	follow func(*ssa.Function) bool
}

func newModEngine(w *World, follow func(*ssa.Function) bool) *modEngine {
	return &modEngine{w: w, memo: map[string]int{}, follow: follow}
}

func (m *modEngine) mutatesParam(fn *ssa.Function, idx int) (bool, string) {
	return m.mutatesParamSpec(fn, idx, "")
}

// mutatesParamSpec: as mutatesParam, specialised on constant bool arguments (branches on those parameters are pruned).
func (m *modEngine) mutatesParamSpec(fn *ssa.Function, idx int, spec string) (bool, string) {
	if fn == nil || fn.Blocks == nil || idx >= len(fn.Params) {
		return false, ""
	}
	key := fn.String() + "#" + itoa(idx) + "#" + spec
	if v, ok := m.memo[key]; ok {
		return v == 1, ""
	}
	m.memo[key] = 2
	p := fn.Params[idx]
	var derived func(v ssa.Value) bool
	derivedSeen := map[ssa.Value]bool{}
	derived = func(v ssa.Value) bool {
		if derivedSeen[v] {
			return false // a cycle of phis (a loop): already being looked at
		}
		derivedSeen[v] = true
		defer delete(derivedSeen, v)
		if rootsAtDeep(v, p, 0) {
			return true
		}
		// the result of a call that may hand one of its arguments back (ISlice returning the slice it was given):
		// follow projections down to such a call
		cur := v
		for i := 0; i < 10; i++ {
			switch x := cur.(type) {
			case *ssa.Extract:
				cur = x.Tuple
				continue
			case *ssa.TypeAssert:
				cur = x.X
				continue
			case *ssa.IndexAddr:
				cur = x.X
				continue
			case *ssa.Index:
				cur = x.X
				continue
			case *ssa.FieldAddr:
				cur = x.X
				continue
			case *ssa.UnOp:
				if x.Op == token.MUL {
					cur = x.X
					continue
				}
			case *ssa.Slice:
				cur = x.X
				continue
			case *ssa.ChangeType:
				cur = x.X
				continue
			case *ssa.MakeInterface:
				cur = x.X
				continue
			case *ssa.ChangeInterface:
				cur = x.X
				continue
			case *ssa.Phi:
				for _, e := range x.Edges {
					if e != cur && derived(e) {
						return true
					}
				}
				return false
			case *ssa.Call:
				f := x.Common().StaticCallee()
				if f == nil || !m.w.IsRulio(f) || f == fn {
					return false
				}
				for ai, a := range x.Common().Args {
					if rootsAtDeep(a, p, 0) && m.returnsAlias(f, ai) {
						return true
					}
				}
				return false
			}
			break
		}
		return false
	}
	res, why := false, ""
	live := blocksReachable(fn, newLocksetEngine(m.w, nil).pruner(fn, spec))
	allInstrs(fn, func(in ssa.Instruction) {
		if res || !live[in.Block()] {
			return
		}
		switch x := in.(type) {
		case *ssa.Store:
			if derived(x.Addr) {
				if _, isAlloc := addrRoot(x.Addr).(*ssa.Alloc); !isAlloc {
					res, why = true, "store at "+m.w.PosOf(in)
				}
			}
		case *ssa.MapUpdate:
			if derived(x.Map) {
				res, why = true, "map update at "+m.w.PosOf(in)
			}
		case ssa.CallInstruction:
			c := x.Common()
			if b, ok := c.Value.(*ssa.Builtin); ok {
				if b.Name() == "delete" && len(c.Args) > 0 && derived(c.Args[0]) {
					res, why = true, "delete at "+m.w.PosOf(in)
				}
				if b.Name() == "copy" && len(c.Args) > 0 && derived(c.Args[0]) {
					res, why = true, "copy into it at "+m.w.PosOf(in)
				}
				// append(s, ...) stores behind len(s) into s's backing array whenever the capacity allows: with s a
				// re-sliced prefix of the input (v[:0], v[:i]) that overwrites the input's own elements
				if b.Name() == "append" && len(c.Args) > 0 && derived(c.Args[0]) && reslicedPrefix(c.Args[0], 0) {
					res, why = true, "append into a re-sliced prefix of it at "+m.w.PosOf(in)
				}
				return
			}
			args := c.Args
			var callees []*ssa.Function
			if f := c.StaticCallee(); f != nil {
				callees = []*ssa.Function{f}
			} else {
				callees = m.w.Callees(x)
				if c.IsInvoke() {
					args = append([]ssa.Value{c.Value}, args...)
				}
			}
			for ai, a := range args {
				if !derived(a) {
					continue
				}
				for _, f := range callees {
					if m.follow != nil && !m.follow(f) {
						continue
					}
					if ok, w2 := m.mutatesParamSpec(f, ai, specOf(c, f)); ok {
						res, why = true, "passed to "+fname(f)+" ("+w2+") at "+m.w.PosOf(in)
					}
				}
			}
		}
	})
	if res {
		m.memo[key] = 1
	}
	return res, why
}

// returnsAlias: can fn return (as any result, boxed or not) a value that aliases its parameter idx?
func (m *modEngine) returnsAlias(fn *ssa.Function, idx int) bool {
	if fn == nil || fn.Blocks == nil || idx >= len(fn.Params) {
		return false
	}
	key := "alias#" + fn.String() + "#" + itoa(idx)
	if v, ok := m.memo[key]; ok {
		return v == 1
	}
	m.memo[key] = 2
	p := fn.Params[idx]
	res := false
	allInstrs(fn, func(in ssa.Instruction) {
		ret, ok := in.(*ssa.Return)
		if !ok || res {
			return
		}
		for _, rv := range ret.Results {
			if rootsAtDeep(resolveSpill(rv), p, 0) {
				// only reference-like results alias
				switch rv.Type().Underlying().(type) {
				case *types.Slice, *types.Map, *types.Pointer, *types.Interface:
					res = true
				}
			}
		}
	})
	if res {
		m.memo[key] = 1
	}
	return res
}

// rootsAtDeep: v is reachable from root through addresses, loads, lookups, element / field projections, conversions,
// type assertions and phis (i.e. it aliases part of root's structure).
func rootsAtDeep(v ssa.Value, root ssa.Value, depth int) bool {
	if depth > 14 {
		return false
	}
	if v == root {
		return true
	}
	switch x := v.(type) {
	case *ssa.FieldAddr:
		return rootsAtDeep(x.X, root, depth+1)
	case *ssa.Field:
		return rootsAtDeep(x.X, root, depth+1)
	case *ssa.IndexAddr:
		return rootsAtDeep(x.X, root, depth+1)
	case *ssa.Index:
		return rootsAtDeep(x.X, root, depth+1)
	case *ssa.UnOp:
		if x.Op == token.MUL {
			return rootsAtDeep(x.X, root, depth+1)
		}
	case *ssa.Lookup:
		return rootsAtDeep(x.X, root, depth+1)
	case *ssa.Extract:
		return rootsAtDeep(x.Tuple, root, depth+1)
	case *ssa.Next:
		return rootsAtDeep(x.Iter, root, depth+1)
	case *ssa.Range:
		return rootsAtDeep(x.X, root, depth+1)
	case *ssa.TypeAssert:
		return rootsAtDeep(x.X, root, depth+1)
	case *ssa.ChangeType:
		return rootsAtDeep(x.X, root, depth+1)
	case *ssa.ChangeInterface:
		return rootsAtDeep(x.X, root, depth+1)
	case *ssa.MakeInterface:
		return rootsAtDeep(x.X, root, depth+1)
	case *ssa.Slice:
		return rootsAtDeep(x.X, root, depth+1)
	case *ssa.Phi:
		for _, e := range x.Edges {
			if rootsAtDeep(e, root, depth+1) {
				return true
			}
		}
	case *ssa.Alloc:
		// a struct-valued parameter spilled into a local slot (`t0 = local T (p); *t0 = p`): the slices and maps
		// inside the copy are the caller's
		if refs := x.Referrers(); refs != nil {
			for _, ref := range *refs {
				// ... or a local variable that was assigned something of the root's (`for _, bs := range qr.Bss`
				// with bs kept in a slot because a closure captures it)
				if st, ok := ref.(*ssa.Store); ok && st.Addr == ssa.Value(x) && (st.Val == root || rootsAtDeep(st.Val, root, depth+1)) {
					return true
				}
			}
		}
	}
	return false
}

// reslicedPrefix: v is (through phis and earlier appends) a slice expression x[:h] (an upper bound and no
// capacity limit): appending to it writes into x's elements from h on.
func reslicedPrefix(v ssa.Value, depth int) bool {
	if depth > 8 {
		return false
	}
	switch x := v.(type) {
	case *ssa.Slice:
		if _, isSlice := x.X.Type().Underlying().(*types.Slice); isSlice && x.High != nil && x.Max == nil {
			return true
		}
		return reslicedPrefix(x.X, depth+1)
	case *ssa.Phi:
		for _, e := range x.Edges {
			if reslicedPrefix(e, depth+1) {
				return true
			}
		}
	case *ssa.Call:
		if b, ok := x.Common().Value.(*ssa.Builtin); ok && b.Name() == "append" && len(x.Call.Args) > 0 {
			return reslicedPrefix(x.Call.Args[0], depth+1)
		}
	}
	return false
}

// ISLICE-LEN (C05): the converted slice has exactly the source's elements.
func ruleISliceLen(w *World, r *Report) {
	r.Rule("ISLICE-LEN", "core.ISlice (which turns typed slices into []interface{} for the matcher and the term extractor) sizes its result by the source's length: no make() in it takes its length from reflect.Value.Cap or cap() — a typed slice with spare capacity would be cast with trailing nil elements, and two equal facts would match differently", 1)
	fn := w.Func("core", "ISlice")
	isCap := func(v ssa.Value) bool {
		c, ok := v.(*ssa.Call)
		if !ok {
			return false
		}
		if b, ok := c.Common().Value.(*ssa.Builtin); ok {
			return b.Name() == "cap"
		}
		f := c.Common().StaticCallee()
		return f != nil && f.Pkg != nil && f.Pkg.Pkg.Path() == "reflect" && f.Name() == "Cap"
	}
	key := "fn=" + fname(fn)
	bad := false
	n := 0
	allInstrs(fn, func(in ssa.Instruction) {
		if ms, ok := in.(*ssa.MakeSlice); ok {
			n++
			if dependsOn(ms.Len, isCap) {
				r.violation("ISLICE-LEN", key, w.PosOf(in), "the length of the converted slice is taken from the source's capacity")
				bad = true
			}
		}
	})
	if !bad {
		r.ok("ISLICE-LEN", key, w.Pos(fn.Pos()), itoa(n)+" make() calls, none sized by a capacity")
	}
}

func ruleModPure(w *World, r *Report) {
	r.Rule("MOD-PURE", "matching does not modify its inputs: bottom-up MOD summaries (which parameters may be written through, following element / field / lookup aliases and calls, including the sheens matcher and interface dispatch resolved by VTA) show that core.Match, Matches, CastMatcher.Match, SheensMatcher.Match, cast, ISlice, Bindings.Bind, ExtendBindings and StripQuestionMarks never write through the pattern, the data or the caller's bindings", 8)
	m := newModEngine(w, nil)
	type target struct {
		fn     *ssa.Function
		params []int
		name   string
	}
	var ts []target
	addF := func(rel, name string, params ...int) {
		if f := w.TryFunc(rel, name); f != nil {
			ts = append(ts, target{f, params, fname(f)})
		} else {
			r.violation("MOD-PURE", "fn="+rel+"."+name, "", "function not found (anchor changed)")
		}
	}
	addM := func(rel, typ, name string, params ...int) {
		if f := w.TryMethod(rel, typ, name); f != nil {
			ts = append(ts, target{f, params, fname(f)})
		} else {
			r.violation("MOD-PURE", "fn="+rel+"."+typ+"."+name, "", "method not found (anchor changed)")
		}
	}
	addF("core", "Match", 1, 2, 3)
	addF("core", "Matches", 1, 2)
	addM("core", "CastMatcher", "Match", 1, 2, 3)
	addM("core", "SheensMatcher", "Match", 1, 2, 3)
	addF("core", "cast", 0)
	addF("core", "ISlice", 0)
	addM("core", "Bindings", "Bind", 0, 2)
	addF("core", "ExtendBindings", 1, 2)
	addM("core", "Bindings", "StripQuestionMarks", 0)
	for _, t := range ts {
		for _, pi := range t.params {
			if pi >= len(t.fn.Params) {
				continue
			}
			key := "fn=" + t.name + " param=" + t.fn.Params[pi].Name()
			if ok, why := m.mutatesParam(t.fn, pi); ok {
				r.violation("MOD-PURE", key, w.Pos(t.fn.Pos()), "this input can be written through: "+why)
			} else {
				r.ok("MOD-PURE", key, w.Pos(t.fn.Pos()), "never written through")
			}
		}
	}
	r.stat("MOD-PURE.summaries_computed", len(m.memo))
}

// ---- C04 -----------------------------------------------------------------------------------------------

// inSameLoop: a and b lie on a common cycle of fn's CFG.
func onCycleWith(fn *ssa.Function, a, b ssa.Instruction) bool {
	return reachable(fn, a, b) && reachable(fn, b, a)
}

func ruleFanOwn(w *World, r *Report) {
	r.Rule("FAN-OWN", "the actions of one condition result run in concurrent goroutines and code reachable from ExecRuleAction.Do writes through the action's Bindings (maybeCopyEvent); therefore every value stored into ExecRuleAction.Bindings is a map allocated afresh for that action: on every cycle through the store, a new allocation happens", 1)
	// premise: something reachable from ExecRuleAction.Do writes through w.Bindings
	do := w.Method("core", "ExecRuleAction", "Do")
	m := newModEngine(w, func(f *ssa.Function) bool { return w.IsRulio(f) })
	writes := false
	allInstrs(do, func(in ssa.Instruction) {
		c := callOf(in)
		if c == nil {
			return
		}
		for ai, a := range c.Args {
			if isFieldLoad(a, "core.ExecRuleAction", "Bindings") || dependsOn(a, func(v ssa.Value) bool { return isFieldLoad(v, "core.ExecRuleAction", "Bindings") }) {
				if f := c.StaticCallee(); f != nil {
					if ok, _ := m.mutatesParam(f, ai); ok {
						writes = true
					}
				}
			}
		}
	})
	if !writes {
		r.info("FAN-OWN", "premise", w.Pos(do.Pos()), "premise false: nothing reachable from ExecRuleAction.Do writes through the action's Bindings any more; sharing a bindings map between actions is then harmless")
		return
	}
	r.ok("FAN-OWN", "premise", w.Pos(do.Pos()), "code reachable from ExecRuleAction.Do writes through its Bindings (maybeCopyEvent)")
	n := 0
	for _, fn := range w.Funcs {
		if isTestFile(w, fn) || w.RelPkg(fn) != "core" {
			continue
		}
		allInstrs(fn, func(in ssa.Instruction) {
			st, ok := storesToField(in, "core.ExecRuleAction", "Bindings")
			if !ok {
				return
			}
			n++
			key := "fn=" + fname(fn)
			// loop?
			if !reachable(fn, in, in) {
				r.ok("FAN-OWN", key, w.PosOf(in), "not in a loop")
				return
			}
			var mk ssa.Instruction
			v := st.Val
			for i := 0; i < 4; i++ {
				switch x := v.(type) {
				case *ssa.ChangeType:
					v = x.X
					continue
				case *ssa.MakeMap:
					mk = x
				}
				break
			}
			if mk == nil {
				r.violation("FAN-OWN", key, w.PosOf(in), "the bindings stored into an action node are not a freshly allocated map: several concurrently running actions share (and write) one map")
				return
			}
			// every cycle through the store passes the allocation
			if h, _ := reach(fn, in, func(x ssa.Instruction) bool { return x == in }, func(x ssa.Instruction) bool { return x == mk }, nil); h != nil {
				r.violation("FAN-OWN", key, w.PosOf(in), "the map stored into the action node is allocated outside the loop that creates the nodes: actions share it")
			} else {
				r.ok("FAN-OWN", key, w.PosOf(in), "each action node gets a map allocated in the same iteration")
			}
		})
	}
	if n == 0 {
		r.violation("FAN-OWN", "stores", "", "nothing stores into ExecRuleAction.Bindings (anchor changed)")
	}
}

func ruleFanSync(w *World, r *Report) {
	r.Rule("FAN-SYNC", "in every goroutine started inside a loop in core's event walk, a write to memory shared with the spawner (a captured variable or an object reached through one) happens between Lock and Unlock of a mutex that is allocated outside that loop (one mutex for all iterations); the spawner's WaitGroup is incremented before the loop, every path of the goroutine body calls Done, and Wait follows the loop", 1)
	ww := w.Method("core", "Location", "WorkWalk")
	n := 0
	allInstrs(ww, func(in ssa.Instruction) {
		g, ok := in.(*ssa.Go)
		if !ok || !reachable(ww, in, in) {
			return
		}
		mc, ok := g.Call.Value.(*ssa.MakeClosure)
		if !ok {
			return
		}
		n++
		body := mc.Fn.(*ssa.Function)
		key := "go in " + fname(ww)
		// shared writes in the body: stores whose address root is a free variable (or loaded through one)
		sharedRoot := func(addr ssa.Value) bool {
			root := addrRoot(addr)
			if _, ok := root.(*ssa.FreeVar); ok {
				return true
			}
			if u, ok := root.(*ssa.UnOp); ok && u.Op == token.MUL {
				if _, ok := addrRoot(u.X).(*ssa.FreeVar); ok {
					return true
				}
			}
			return false
		}
		// mutexes: free variables of type *sync.Mutex bound to an Alloc in the spawner
		lockOf := func(x ssa.Instruction) (ssa.Value, bool, bool) {
			c := callOf(x)
			if c == nil {
				return nil, false, false
			}
			f := c.StaticCallee()
			if f == nil || f.Pkg == nil || f.Pkg.Pkg.Path() != "sync" || len(c.Args) == 0 {
				return nil, false, false
			}
			if f.Name() == "Lock" {
				return c.Args[0], true, true
			}
			if f.Name() == "Unlock" {
				return c.Args[0], false, true
			}
			return nil, false, false
		}
		bad := ""
		allInstrs(body, func(x ssa.Instruction) {
			st, ok := x.(*ssa.Store)
			if !ok || !sharedRoot(st.Addr) || bad != "" {
				return
			}
			// find a Lock that dominates the store with no Unlock in between, on a loop-invariant mutex
			protected := false
			allInstrs(body, func(l ssa.Instruction) {
				mu, isLock, ok := lockOf(l)
				if !ok || !isLock || !instrDominates(l, x) {
					return
				}
				if y := between(body, l, x, func(z ssa.Instruction) bool {
					m2, isL, ok := lockOf(z)
					return ok && !isL && m2 == mu
				}); y != nil {
					return
				}
				// the mutex: a free variable bound to an allocation outside the loop
				fv, ok := mu.(*ssa.FreeVar)
				if !ok {
					return
				}
				for k, f2 := range body.FreeVars {
					if f2 == fv && k < len(mc.Bindings) {
						if a, ok := mc.Bindings[k].(*ssa.Alloc); ok {
							// shared by the goroutines of one fan-out iff the spawning loop can go from one `go` to the
							// next without allocating a new mutex
							if h, _ := reach(ww, in, func(z ssa.Instruction) bool { return z == in }, func(z ssa.Instruction) bool { return z == ssa.Instruction(a) }, nil); h != nil {
								protected = true
								// ... and when the spawner does come back to allocate a new mutex (the next fan-out), every
								// goroutine of this one has been waited for
								isWait := func(z ssa.Instruction) bool {
									c := callOf(z)
									if c == nil {
										return false
									}
									f := c.StaticCallee()
									return f != nil && f.Pkg != nil && f.Pkg.Pkg.Path() == "sync" && f.Name() == "Wait"
								}
								if h2, _ := reach(ww, in, func(z ssa.Instruction) bool { return z == ssa.Instruction(a) }, isWait, nil); h2 != nil {
									bad = "the spawner can reach the allocation of a new mutex (the next fan-out) without having waited for the goroutines of this one: goroutines of two fan-outs write the shared memory at " + w.PosOf(x) + " under two different mutexes"
								}
							} else {
								bad = "the mutex guarding the shared write at " + w.PosOf(x) + " is allocated inside the loop: every goroutine locks its own mutex"
							}
						}
					}
				}
			})
			if !protected && bad == "" {
				bad = "the write to shared memory at " + w.PosOf(x) + " is not under a mutex shared by all the goroutines"
			}
		})
		// WaitGroup discipline
		var add, wait ssa.Instruction
		doneOnAllPaths := true
		allInstrs(ww, func(x ssa.Instruction) {
			if c := callOf(x); c != nil {
				if f := c.StaticCallee(); f != nil && f.Pkg != nil && f.Pkg.Pkg.Path() == "sync" && recvNamed(calleeObj(c)) != nil && recvNamed(calleeObj(c)).Obj().Name() == "WaitGroup" {
					outsideSpawnLoop := func(y ssa.Instruction) bool {
						h, _ := reach(ww, in, func(z ssa.Instruction) bool { return z == in }, func(z ssa.Instruction) bool { return z == y }, nil)
						return h != nil
					}
					if f.Name() == "Add" && instrDominates(x, in) && outsideSpawnLoop(x) {
						add = x
					}
					if f.Name() == "Wait" && reachable(ww, in, x) && outsideSpawnLoop(x) {
						wait = x
					}
				}
			}
		})
		isDone := func(x ssa.Instruction) bool {
			c := callOf(x)
			if c == nil {
				return false
			}
			f := c.StaticCallee()
			return f != nil && f.Pkg != nil && f.Pkg.Pkg.Path() == "sync" && f.Name() == "Done"
		}
		if h, _ := reach(body, nil, isExit, isDone, nil); h != nil {
			doneOnAllPaths = false
		}
		switch {
		case bad != "":
			r.violation("FAN-SYNC", key, w.PosOf(in), bad)
		case add == nil || wait == nil:
			r.violation("FAN-SYNC", key, w.PosOf(in), "the goroutines are not bracketed by WaitGroup.Add before the loop and Wait after it")
		case !doneOnAllPaths:
			r.violation("FAN-SYNC", key, w.PosOf(in), "a path of the goroutine body ends without WaitGroup.Done: the walk would wait forever")
		default:
			r.ok("FAN-SYNC", key, w.PosOf(in), "shared writes under one mutex; Add / Done / Wait in place")
		}
	})
	if n == 0 {
		r.info("FAN-SYNC", "go in "+fname(ww), w.Pos(ww.Pos()), "WorkWalk starts no goroutine in a loop any more")
	}
	r.stat("FAN-SYNC.goroutines_in_loops", n)
}

// FAN-EVERY: every (binding, action) pair and every binding gets exactly one child per loop iteration.
func ruleFanEvery(w *World, r *Report) {
	r.Rule("FAN-EVERY", "in EvalRule.Do and EvalRuleCondition.Do the loop that creates one child node per binding (and per action) appends a child on every iteration: no path through the loop body skips the append, returns or breaks out", 2)
	for _, spec := range [][2]string{{"EvalRule", "Children"}, {"EvalRuleCondition", "Children"}} {
		fn := w.Method("core", spec[0], "Do")
		key := "fn=" + fname(fn)
		var appends []ssa.Instruction
		allInstrs(fn, func(in ssa.Instruction) {
			st, ok := storesToField(in, "core."+spec[0], spec[1])
			if !ok {
				return
			}
			if c, ok := st.Val.(*ssa.Call); ok {
				if b, ok := c.Common().Value.(*ssa.Builtin); ok && b.Name() == "append" && reachable(fn, in, in) {
					appends = append(appends, in)
				}
			}
		})
		if len(appends) == 0 {
			r.violation("FAN-EVERY", key, w.Pos(fn.Pos()), "cannot find the loop that appends child nodes (shape changed)")
			continue
		}
		for _, ap := range appends {
			// innermost loop header: the closest dominating block with an If / range test on a cycle with the append
			var header *ssa.BasicBlock
			for b := ap.Block(); b != nil; b = b.Idom() {
				if len(b.Instrs) == 0 {
					continue
				}
				if _, ok := b.Instrs[len(b.Instrs)-1].(*ssa.If); ok && b != ap.Block() && blockReaches(ap.Block(), b, nil) {
					// the append must lie in the body of this header's loop (not after an inner loop that merely precedes it)
					if b.Succs[0] == ap.Block() || blockReaches(b.Succs[0], ap.Block(), b) {
						header = b
						break
					}
				}
			}
			if header == nil {
				r.violation("FAN-EVERY", key, w.PosOf(ap), "cannot find the loop header of the child-creating loop")
				continue
			}
			body := header.Succs[0]
			first := body.Instrs[0]
			isAp := func(x ssa.Instruction) bool { return x == ap }
			bad := ""
			// (a) from the body entry, the header (next iteration) is not reachable without the append
			hfirst := header.Instrs[0]
			if first != ap {
				if h, _ := reach(fn, first, func(x ssa.Instruction) bool { return x == hfirst }, isAp, nil); h != nil {
					bad = "an iteration can go round without appending a child"
				}
				// (b) nor is a function exit
				if h, _ := reach(fn, first, isExit, func(x ssa.Instruction) bool { return x == ap || x == hfirst }, nil); h != nil {
					bad = "the loop body can leave the function before appending a child"
				}
			}
			if bad != "" {
				r.violation("FAN-EVERY", key, w.PosOf(ap), bad)
			} else {
				r.ok("FAN-EVERY", key, w.PosOf(ap), "every iteration appends exactly one child")
			}
		}
	}
}

var _ types.Type

func init() {
	register(&propertySpec{
		ID:      "C04",
		Explain: "Static fan-out rules for the event walk: every binding / action pair gets a child node on every iteration, each concurrently running action owns its bindings map, the goroutines' shared writes are under one mutex with a complete WaitGroup protocol, and nodes are complete only without error. Does not decide the variable environment seen by scripts, equality of tree / values / side effects, or which bindings the condition yields.",
		Rules:   []ruleFn{ruleCodeBindingsOwn("C04"), ruleFanOwn, ruleFanSync, ruleFanEvery, ruleSetIfAbsent, ruleDispErr, ruleLoopAlias, ruleThunkLazy, ruleValuesOwnDisp, ruleDecodeDep, ruleIdxOrder("C04"), ruleRecoverResult, ruleModIndex("C04"), ruleQueryPure("C04"), ruleFanModeLocal, ruleWhenAgree("C04"), ruleCopyDeep, ruleCtxPerGoroutine("C04"), ruleMarshalPure("C04"), ruleRandGuard("C04"), ruleMemoKey("C04"), ruleLoopvarGo("C04"), ruleActionBindingsOwn("C04")},
	})
	register(&propertySpec{
		ID:      "C05",
		Explain: "Static MOD (may-modify) analysis for the last clause of C05 only: neither the pattern, the data nor the caller's initial bindings are modified by matching. Soundness and completeness of matching itself live in the sheens dependency and quantify over data: not decided.",
		Rules:   []ruleFn{ruleIdxEmptyAll("C05"), ruleModPure, ruleISliceLen, ruleCastFresh, ruleLoopExhaust("C05"), ruleBindPresence("C05"), ruleCastAllInputs, ruleCastNumbers, ruleIdxCanon("C05")},
	})
}

// CAST-FRESH (C05): cast never hands a container back as it came.
func ruleCastFresh(w *World, r *Report) {
	r.Rule("CAST-FRESH", "core.cast turns every container it recognises (core.Map, map[string]interface{}, []interface{}) into a newly built plain container: a return that hands back the input itself (or an alias of it) is reachable only with the successful type-assertion edges for those container types deleted, i.e. only for inputs that are not containers.  A container returned as it came keeps its Go type (the matcher only understands map[string]interface{} and []interface{}: an empty core.Map would match nothing and be an `unknown pattern type`) and is shared with the caller", 1)
	fn := w.Func("core", "cast")
	if len(fn.Params) == 0 {
		undecided("CAST-FRESH: cast has no parameter")
	}
	p := fn.Params[0]
	isContainer := func(t types.Type) bool {
		switch t.Underlying().(type) {
		case *types.Map, *types.Slice:
			return true
		}
		return false
	}
	del := map[bedge]bool{}
	n := 0
	for _, b := range fn.Blocks {
		if len(b.Instrs) == 0 {
			continue
		}
		ifi, ok := b.Instrs[len(b.Instrs)-1].(*ssa.If)
		if !ok {
			continue
		}
		ct, ok := decodeIf(ifi)
		if !ok {
			continue
		}
		ex, ok := ct.V.(*ssa.Extract)
		if !ok || ex.Index != 1 {
			continue
		}
		ta, ok := ex.Tuple.(*ssa.TypeAssert)
		if !ok || !rootsAtDeep(ta.X, p, 0) || !isContainer(ta.AssertedType) {
			continue
		}
		n++
		if ct.TrueWhen == "true" {
			del[bedge{b, 0}] = true
		} else if ct.TrueWhen == "false" {
			del[bedge{b, 1}] = true
		}
	}
	key := "fn=" + fname(fn)
	if n == 0 {
		r.exempt("CAST-FRESH", key, w.Pos(fn.Pos()), "cast does not dispatch on container types by comma-ok assertions: shape not recognised, not decided")
		return
	}
	live := blocksReachable(fn, edgeFilterOf(del))
	bad := false
	allInstrs(fn, func(in ssa.Instruction) {
		ret, ok := in.(*ssa.Return)
		if !ok || len(ret.Results) == 0 || bad {
			return
		}
		v := resolveSpill(ret.Results[0])
		if !rootsAtDeep(v, p, 0) {
			return
		}
		if !live[in.Block()] {
			r.violation("CAST-FRESH", key, w.PosOf(in), "on an arm that is taken only for a container, cast returns its input (or an alias of it) instead of a newly built container")
			bad = true
		}
	})
	if !bad {
		r.ok("CAST-FRESH", key, w.Pos(fn.Pos()), itoa(n)+" container assertions; the input is returned only for non-containers")
	}
}

// MOD-INDEX (C01, C04): looking a pattern or an event up in the rule index does not change it.
func ruleModIndex(prop string) ruleFn {
	return func(w *World, r *Report) {
		r.Rule("MOD-INDEX", "the rule index does not reorder the arrays of the maps it is given: PatternIndex.searchPairs and mod hand each array value of the event (or of the rule's `when`) to core.SortValues, and the MOD summary of SortValues (as for MOD-PURE; sort.Sort is followed into the Swap of the slice type it is handed) shows that it never writes through its argument — it sorts a copy.  The event map handed to the index is the one bound to `?event` and reported in the work tree; sorting one of its arrays in place (to walk the index in the order in which patterns were filed) hands the actions an event that is not the submitted one, and only in an IndexedState", 1)
		m := newModEngine(w, nil)
		fn := w.Func("core", "SortValues")
		key := "fn=" + fname(fn) + " param=" + fn.Params[0].Name()
		if ok, why := m.mutatesParam(fn, 0); ok {
			r.violation("MOD-INDEX", key, w.Pos(fn.Pos()), "the array is sorted in place: "+why)
		} else {
			r.ok("MOD-INDEX", key, w.Pos(fn.Pos()), "never written through (a copy is sorted)")
		}
		// premise: the index hands SortValues arrays that belong to the caller's map
		n := 0
		for _, name := range []string{"searchPairs", "mod"} {
			f := w.Method("core", "PatternIndex", name)
			allInstrs(f, func(in ssa.Instruction) {
				if c := callOf(in); c != nil && c.StaticCallee() == fn {
					n++
				}
			})
		}
		r.stat("MOD-INDEX.sortvalues_calls_in_index", n)
		if n == 0 {
			r.info("MOD-INDEX", "premise", w.Pos(fn.Pos()), "the index no longer calls SortValues")
		}
		r.stat("MOD-INDEX.summaries_computed", len(m.memo))
	}
}
