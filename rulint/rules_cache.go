package main

// rules_cache.go: C17 — the location cache (INIT-ONCE, CACHE-OK-ONLY, PENDING-FIRST, EXIST-CONST).

import (
	"golang.org/x/tools/go/ssa"
)

const cachedLoc = "sys.CachedLocation"

func ruleInitOnce(w *World, r *Report) {
	r.Rule("INIT-ONCE", "a location is loaded at most once per cache entry: System.OpenLocation is called only from CachedLocation.Get, inside the entry's critical section and only on the `cl.Location == nil` edge; in CachedLocations.Open the new entry is inserted into the table in the same critical section as the lookup that missed, so concurrent first requests share one entry", 2)
	open := w.Method("sys", "System", "OpenLocation")
	get := w.Method("sys", "CachedLocation", "Get")
	e := newLocksetEngine(w, guardsSystem())
	// who calls OpenLocation
	n := 0
	for _, ed := range w.Callers(open) {
		c := ed.Caller.Func
		if isTestFile(w, c) || c.Synthetic != "" {
			continue
		}
		n++
		key := "caller of OpenLocation: " + fname(c)
		if c != get {
			r.violation("INIT-ONCE", key, w.PosOf(ed.Site), "System.OpenLocation (which loads a location from storage) is called outside CachedLocation.Get: the location can be loaded more than once")
			continue
		}
		// inside the critical section of cl and on the nil edge
		lock := cachedLoc + ".Mutex"
		var acq, rel []ssa.Instruction
		allInstrs(get, func(in ssa.Instruction) {
			if e.acquires(in, lock) {
				acq = append(acq, in)
			}
			if e.releases(in, lock) {
				rel = append(rel, in)
			}
		})
		site := ed.Site.(ssa.Instruction)
		inSection := false
		for _, a := range acq {
			if !reachable(get, a, site) {
				continue
			}
			if x := between(get, a, site, func(in ssa.Instruction) bool { return e.releases(in, lock) }); x == nil {
				inSection = true
			}
		}
		// the nil edge: with the non-nil edges of tests on the loaded cl.Location deleted ... the call must stay reachable; with the nil
		// edges deleted it must not be
		type edge struct {
			b *ssa.BasicBlock
			i int
		}
		delNil := map[edge]bool{}
		for _, b := range get.Blocks {
			if len(b.Instrs) == 0 {
				continue
			}
			if ifi, ok := b.Instrs[len(b.Instrs)-1].(*ssa.If); ok {
				if ct, ok := decodeIf(ifi); ok && isFieldLoad(ct.V, cachedLoc, "Location") {
					if ct.TrueWhen == "nil" {
						delNil[edge{b, 0}] = true
					} else if ct.TrueWhen == "nonnil" {
						delNil[edge{b, 1}] = true
					}
				}
			}
		}
		h, _ := reach(get, nil, func(in ssa.Instruction) bool { return in == site }, nil, func(from *ssa.BasicBlock, si int) bool { return !delNil[edge{from, si}] })
		switch {
		case !inSection:
			r.violation("INIT-ONCE", key, w.PosOf(site), "OpenLocation is called outside the cache entry's critical section: two first requests can both load the location")
		case h != nil || len(delNil) == 0:
			r.violation("INIT-ONCE", key, w.PosOf(site), "OpenLocation is not confined to the `cl.Location == nil` edge: an already loaded location can be loaded again")
		default:
			r.ok("INIT-ONCE", key, w.PosOf(site), "called under the entry lock, only when the entry has no location yet")
		}
	}
	if n == 0 {
		r.violation("INIT-ONCE", "caller of OpenLocation", w.Pos(open.Pos()), "nobody calls System.OpenLocation (anchor changed)")
	}
	// Open: miss and insert in one critical section of the table
	op := w.Method("sys", "CachedLocations", "Open")
	tlock := "sys.CachedLocations.Mutex"
	var lookups, inserts []ssa.Instruction
	allInstrs(op, func(in ssa.Instruction) {
		if mu, ok := in.(*ssa.MapUpdate); ok && isFieldLoad(mu.Map, "sys.CachedLocations", "locs") {
			inserts = append(inserts, in)
		}
		if c := callOf(in); c != nil {
			if f := c.StaticCallee(); f != nil && f.Name() == "expire" {
				lookups = append(lookups, in)
			}
		}
		if lk, ok := in.(*ssa.Lookup); ok && isFieldLoad(lk.X, "sys.CachedLocations", "locs") {
			lookups = append(lookups, in)
		}
	})
	key := "fn=" + fname(op) + " miss-then-insert"
	if len(lookups) == 0 || len(inserts) == 0 {
		r.violation("INIT-ONCE", key, w.Pos(op.Pos()), "Open no longer looks an entry up and inserts a new one (shape changed)")
	} else {
		bad := false
		for _, l := range lookups {
			for _, i := range inserts {
				if reachable(op, l, i) {
					if x := between(op, l, i, func(in ssa.Instruction) bool { return e.releases(in, tlock) }); x != nil {
						bad = true
					}
				}
			}
		}
		if bad {
			r.violation("INIT-ONCE", key, w.PosOf(inserts[0]), "the table lock is released between the lookup that missed and the insertion of the new entry: two first requests create two entries and load twice")
		} else {
			r.ok("INIT-ONCE", key, w.PosOf(inserts[0]), "lookup and insertion in one critical section")
		}
	}
}

func ruleCacheOkOnly(w *World, r *Report) {
	r.Rule("CACHE-OK-ONLY", "CachedLocation.Get stores the opened location into the cache entry only behind the err == nil edge of OpenLocation (a location that failed the existence check must not stay cached: later requests would find it and succeed without it ever having been created)", 1)
	get := w.Method("sys", "CachedLocation", "Get")
	open := w.Method("sys", "System", "OpenLocation")
	gate := gateSpec{Name: "OpenLocation", FailWhen: "nonnil", Idx: 1, IsGate: func(c *ssa.CallCommon) bool { return c.StaticCallee() == open }}
	g := newGateEngine(w, []gateSpec{gate}, nil, nil)
	ef, nt := g.passEdgeFilter(get)
	var stores []ssa.Instruction
	allInstrs(get, func(in ssa.Instruction) {
		if st, ok := storesToField(in, cachedLoc, "Location"); ok && !isNilConst(st.Val) {
			stores = append(stores, in)
		}
	})
	key := "fn=" + fname(get)
	if nt == 0 || len(stores) == 0 {
		r.violation("CACHE-OK-ONLY", key, w.Pos(get.Pos()), "Get no longer tests the error of OpenLocation before caching the location (shape changed)")
		return
	}
	reachableB := blocksReachable(get, ef)
	for _, s := range stores {
		if reachableB[s.Block()] {
			r.violation("CACHE-OK-ONLY", key, w.PosOf(s), "the location returned by OpenLocation is cached on a path that has not passed the no-error edge: a never-created location stays in the cache")
		} else {
			r.ok("CACHE-OK-ONLY", key, w.PosOf(s), "cached only on success")
		}
	}
}

func rulePendingFirst(w *World, r *Report) {
	r.Rule("PENDING-FIRST", "in CachedLocations.expire the entry's Pending flag is updated before the liveness test reads it: an entry that is in use by another request (pending) must not be judged by a stale flag and thrown away", 1)
	ex := w.Method("sys", "CachedLocations", "expire")
	var stores, loads []ssa.Instruction
	allInstrs(ex, func(in ssa.Instruction) {
		if _, ok := storesToField(in, cachedLoc, "Pending"); ok {
			stores = append(stores, in)
		}
		if u, ok := in.(*ssa.UnOp); ok && isFieldLoad(u, cachedLoc, "Pending") {
			loads = append(loads, in)
		}
	})
	key := "fn=" + fname(ex)
	if len(stores) == 0 || len(loads) == 0 {
		r.violation("PENDING-FIRST", key, w.Pos(ex.Pos()), "expire no longer writes and reads CachedLocation.Pending (shape changed)")
		return
	}
	isStore := func(in ssa.Instruction) bool {
		for _, s := range stores {
			if s == in {
				return true
			}
		}
		return false
	}
	bad := false
	for _, l := range loads {
		l := l
		if h, _ := reach(ex, nil, func(in ssa.Instruction) bool { return in == l }, isStore, nil); h != nil {
			bad = true
			r.violation("PENDING-FIRST", key, w.PosOf(l), "the liveness test reads Pending before this request's value has been stored")
		}
	}
	if !bad {
		r.ok("PENDING-FIRST", key, w.PosOf(stores[0]), "Pending is stored before it is read")
	}
}

func ruleExistConst(w *World, r *Report) {
	r.Rule("EXIST-CONST", "every System operation except CreateLocation and GetLocation (the LocationProvider method) asks findLocation to check existence (constant true); findLocation conjoins that with the configuration and hands it on; OpenLocation returns an error on the checked-and-not-created edge", 20)
	find := w.Method("sys", "System", "findLocation")
	allow := map[string]bool{"CreateLocation": true, "GetLocation": true}
	for _, ed := range w.Callers(find) {
		c := ed.Caller.Func
		if isTestFile(w, c) || c.Synthetic != "" {
			continue
		}
		cc := ed.Site.Common()
		key := "caller=" + fname(c)
		if len(cc.Args) < 4 {
			continue
		}
		v, isConst := isConstBool(cc.Args[3])
		switch {
		case allow[c.Name()]:
			r.ok("EXIST-CONST", key, w.PosOf(ed.Site), "allow-listed: creating / providing a location does not require it to exist")
		case isConst && v:
			r.ok("EXIST-CONST", key, w.PosOf(ed.Site), "asks for the existence check")
		default:
			r.violation("EXIST-CONST", key, w.PosOf(ed.Site), "this operation opens the location without asking for the existence check: with CheckExistence on, a request to a never-created location succeeds (and creates state)")
		}
	}
	// findLocation hands check && config to Open
	handsOn := false
	allInstrs(find, func(in ssa.Instruction) {
		c := callOf(in)
		if c == nil || c.StaticCallee() == nil || c.StaticCallee().Name() != "Open" {
			return
		}
		last := c.Args[len(c.Args)-1]
		if dependsOnCD(find, last, func(v ssa.Value) bool { return v == ssa.Value(find.Params[3]) }) {
			handsOn = true
		}
	})
	if handsOn {
		r.ok("EXIST-CONST", "fn="+fname(find), w.Pos(find.Pos()), "the check flag reaches CachedLocations.Open")
	} else {
		r.violation("EXIST-CONST", "fn="+fname(find), w.Pos(find.Pos()), "findLocation no longer hands its check flag to the cache")
	}
	// OpenLocation: on checkExists && !created every return is an error return
	open := w.Method("sys", "System", "OpenLocation")
	type edge struct {
		b *ssa.BasicBlock
		i int
	}
	del := map[edge]bool{}
	found := 0
	for _, b := range open.Blocks {
		if len(b.Instrs) == 0 {
			continue
		}
		ifi, ok := b.Instrs[len(b.Instrs)-1].(*ssa.If)
		if !ok {
			continue
		}
		ct, ok := decodeIf(ifi)
		if !ok {
			continue
		}
		if ct.V == ssa.Value(open.Params[3]) { // checkExists: keep only the true edge
			found++
			if ct.TrueWhen == "true" {
				del[edge{b, 1}] = true
			} else {
				del[edge{b, 0}] = true
			}
		}
		if ex, ok := ct.V.(*ssa.Extract); ok && ex.Index == 0 {
			if c, ok := ex.Tuple.(*ssa.Call); ok && c.Common().StaticCallee() != nil && c.Common().StaticCallee().Name() == "locationCreated" {
				found++
				// created: keep only the false edge
				if ct.TrueWhen == "true" {
					del[edge{b, 0}] = true
				} else {
					del[edge{b, 1}] = true
				}
			}
		}
	}
	ef := func(from *ssa.BasicBlock, si int) bool { return !del[edge{from, si}] }
	key := "fn=" + fname(open) + " not-created"
	if found < 2 {
		r.violation("EXIST-CONST", key, w.Pos(open.Pos()), "OpenLocation no longer tests checkExists and locationCreated (shape changed)")
	} else if h, path := reachPSA(open, nil, isSuccessReturnThroughWrapper(w), nil, ef); h != nil {
		r.violation("EXIST-CONST", key, w.PosOf(h), "OpenLocation can return success for a location that was checked and found not created", blockPathString(w, path)...)
	} else {
		r.ok("EXIST-CONST", key, w.Pos(open.Pos()), "checked and not created => error")
	}
}

// isSuccessReturnThroughWrapper: like isSuccessReturn, but looks through wrappers that return their argument
// (stats.IncErrors(err) returns err).
func isSuccessReturnThroughWrapper(w *World) func(ssa.Instruction, map[ssa.Value]bool) bool {
	return func(in ssa.Instruction, assume map[ssa.Value]bool) bool {
		ret, ok := in.(*ssa.Return)
		if !ok {
			return false
		}
		idx := errorResultIndex(in.Parent().Signature)
		if idx < 0 || idx >= len(ret.Results) {
			return true
		}
		v := resolveSpill(ret.Results[idx])
		for i := 0; i < 3; i++ {
			c, ok := v.(*ssa.Call)
			if !ok {
				break
			}
			f := c.Common().StaticCallee()
			if f == nil || !returnsItsArgument(f) {
				break
			}
			v = c.Common().Args[len(c.Common().Args)-1]
		}
		if isNilConst(v) {
			return true
		}
		if t, ok := assume[v]; ok {
			return !t
		}
		// a phi of a fresh error and nil, or an error variable: look at the phi edges
		if ph, ok := v.(*ssa.Phi); ok {
			all := true
			for _, e := range ph.Edges {
				if isNilConst(e) {
					all = false
				}
				if t, ok := assume[e]; ok && !t {
					all = false
				}
			}
			if all {
				return false
			}
		}
		return true
	}
}

// returnsItsArgument: every return of f returns its last parameter (e.g. ServiceStats.IncErrors).
func returnsItsArgument(f *ssa.Function) bool {
	if f.Blocks == nil || len(f.Params) == 0 || f.Signature.Results().Len() != 1 {
		return false
	}
	last := f.Params[len(f.Params)-1]
	ok, n := true, 0
	allInstrs(f, func(in ssa.Instruction) {
		if ret, isRet := in.(*ssa.Return); isRet {
			n++
			if resolveSpill(ret.Results[0]) != ssa.Value(last) {
				ok = false
			}
		}
	})
	return ok && n > 0
}

func init() {
	register(&propertySpec{
		ID:      "C17",
		Explain: "Static lock-set, gate and ordering rules for the location cache: entries and the table are accessed under their locks, a location is loaded once per entry and only cached on success, the pending flag is set before it is consulted, existence checking is requested by every operation. Does not decide independence of results from the TTL or staleness under concurrent release.",
		Rules:   []ruleFn{ruleLocksetCache, ruleInitOnce, ruleCacheOkOnly, rulePendingFirst, ruleExistConst, ruleReleaseLast, ruleCacheErrOrigin, rulePendingCount, ruleCacheGetOrCreate, ruleIdxReset, ruleCacheEvict("C17"), ruleCachePendingShared, ruleLockOrder("C17"), ruleExistEvery, ruleLoadPure("C17"), ruleCacheLocSticky, ruleIndexLoad("C17"), ruleStateFresh("C17")},
	})
}
