package main

// rules_lifecycle.go: C10 — only live, enabled rules fire (DISP-ENABLED, REM-FLAG; GATE-E and CACHE-INV are shared).

import (
	"go/types"
	"go/token"
	"golang.org/x/tools/go/ssa"
)

func ruleDispEnabled(w *World, r *Report) {
	r.Rule("DISP-ENABLED", "in FindRules.Do every rule that is appended to the work tree passed the true edge of Location.RuleEnabled for its id, on every path (stored rules found by search and rules loaded by a `trigger!` event alike); only a rule embedded in the event itself (`evaluate!`) may bypass the test", 1)
	fn := w.Method("core", "FindRules", "Do")
	a := newLocAnchors(w)
	gate := gateSpec{Name: "RuleEnabled", FailWhen: "false", Idx: 0, IsGate: func(c *ssa.CallCommon) bool { return a.isLocMethod(c, "RuleEnabled") }}
	g := newGateEngine(w, []gateSpec{gate}, nil, nil)
	passEF, nt := g.passEdgeFilter(fn)
	key := "fn=" + fname(fn)
	if nt == 0 {
		r.violation("DISP-ENABLED", key, w.Pos(fn.Pos()), "FindRules.Do no longer branches on the result of Location.RuleEnabled")
		return
	}
	// the `embedded` flag: a bool phi whose true edges lie behind the lookup of "evaluate!"
	var evalLookup ssa.Instruction
	allInstrs(fn, func(in ssa.Instruction) {
		if lk, ok := in.(*ssa.Lookup); ok {
			if k, ok := constKey(lk.Index); ok && k == "evaluate!" {
				evalLookup = in
			}
		}
	})
	type edge struct {
		b *ssa.BasicBlock
		i int
	}
	bypass := map[edge]bool{}
	if evalLookup != nil {
		for _, b := range fn.Blocks {
			if len(b.Instrs) == 0 {
				continue
			}
			ifi, ok := b.Instrs[len(b.Instrs)-1].(*ssa.If)
			if !ok {
				continue
			}
			ct, ok := decodeIf(ifi)
			if !ok {
				continue
			}
			ph, ok := ct.V.(*ssa.Phi)
			if !ok {
				continue
			}
			legit := true
			anyTrue := false
			for i, e := range ph.Edges {
				bv, isC := isConstBool(e)
				if !isC {
					legit = false
					break
				}
				if bv {
					anyTrue = true
					// the predecessor must lie behind the evaluate! lookup
					pred := ph.Block().Preds[i]
					first := pred.Instrs[0]
					if h, _ := reach(fn, nil, func(x ssa.Instruction) bool { return x == first }, func(x ssa.Instruction) bool { return x == evalLookup }, nil); h != nil {
						legit = false
					}
				}
			}
			if legit && anyTrue {
				// the edge on which the flag is true bypasses the gate legitimately
				if ct.TrueWhen == "true" {
					bypass[edge{b, 0}] = true
				} else if ct.TrueWhen == "false" {
					bypass[edge{b, 1}] = true
				}
			}
		}
	}
	ef := func(from *ssa.BasicBlock, si int) bool { return passEF(from, si) && !bypass[edge{from, si}] }
	// sink: the append whose result is stored into FindRules.Children
	var sinks []ssa.Instruction
	allInstrs(fn, func(in ssa.Instruction) {
		st, ok := storesToField(in, "core.FindRules", "Children")
		if !ok {
			return
		}
		if c, ok := st.Val.(*ssa.Call); ok {
			if b, ok := c.Common().Value.(*ssa.Builtin); ok && b.Name() == "append" {
				sinks = append(sinks, c)
			}
		}
	})
	if len(sinks) == 0 {
		r.violation("DISP-ENABLED", key, w.Pos(fn.Pos()), "cannot find where FindRules.Do appends to Children (shape changed)")
		return
	}
	reachable := blocksReachable(fn, ef)
	for _, s := range sinks {
		if reachable[s.Block()] {
			r.violation("DISP-ENABLED", key, w.PosOf(s), "a rule can be appended to the work tree without having passed the true edge of RuleEnabled (a disabled rule fires)")
		} else {
			r.ok("DISP-ENABLED", key, w.PosOf(s), "dispatch only behind RuleEnabled == true (or the embedded-rule bypass)")
		}
	}
	// the id asked about is the id under which the candidate was found: the key of the ranged map, or a
	// field that was set from that key at a point dominating the question
	allInstrs(fn, func(in ssa.Instruction) {
		c := callOf(in)
		if c == nil || !a.isLocMethod(c, "RuleEnabled") {
			return
		}
		var idArg ssa.Value
		for _, arg := range c.Args {
			if b, ok := arg.Type().Underlying().(*types.Basic); ok && b.Kind() == types.String {
				idArg = arg
			}
		}
		k2 := "fn=" + fname(fn) + " id-of-RuleEnabled"
		if idArg == nil {
			return
		}
		isRangeKey := func(v ssa.Value) bool {
			ex, ok := v.(*ssa.Extract)
			if !ok || ex.Index != 1 {
				return false
			}
			_, ok = ex.Tuple.(*ssa.Next)
			return ok
		}
		if isRangeKey(idArg) {
			r.ok("DISP-ENABLED", k2, w.PosOf(in), "asks about the key under which the candidate rule was found")
			return
		}
		if ld, ok := idArg.(*ssa.UnOp); ok && ld.Op == token.MUL {
			if fa, ok := ld.X.(*ssa.FieldAddr); ok {
				// a store of a range key into the same field of the same object that dominates the call
				set := false
				allInstrs(fn, func(x ssa.Instruction) {
					st, ok := x.(*ssa.Store)
					if !ok {
						return
					}
					fa2, ok := st.Addr.(*ssa.FieldAddr)
					if !ok || fa2.Field != fa.Field || fa2.X != fa.X || !isRangeKey(st.Val) {
						return
					}
					if instrDominates(x, in) {
						set = true
					}
				})
				if set {
					r.ok("DISP-ENABLED", k2, w.PosOf(in), "asks about a field set from the candidate's key beforehand")
				} else if n, f, _, okf := fieldOf(fa); okf && typeKey(n) == "core.Rule" && f == "Id" && ruleIdSetAtCreation(w) {
					r.exempt("DISP-ENABLED", k2, w.PosOf(in), "asks about Rule.Id, which every rule carries from the moment it is created or cached (premise checked: FindCachedRules stores the key into Rule.Id before it publishes the rule): equal to the key, not decided further")
				} else {
					r.violation("DISP-ENABLED", k2, w.PosOf(in), "RuleEnabled is asked about a field of the candidate rule that has not (on every path) been set from the key under which the rule was found: for a freshly compiled rule the field is empty, no `disabled` flag is found under the empty id, and a disabled rule fires")
				}
				return
			}
		}
		r.exempt("DISP-ENABLED", k2, w.PosOf(in), "provenance of the id not recognised (neither the range key nor a field load): not decided by this clause")
	})
}

func ruleRemFlag(w *World, r *Report) {
	r.Rule("REM-FLAG", "Location.RemRule removes the rule's `disabled` property whenever the removal succeeded and the flag exists (the flag disappears with the rule)", 1)
	fn := w.Method("core", "Location", "RemRule")
	a := newLocAnchors(w)
	var remCall ssa.Instruction
	allInstrs(fn, func(in ssa.Instruction) {
		if _, ok := a.stateCall(in, map[string]bool{"Rem": true}); ok && remCall == nil {
			remCall = in
		}
	})
	key := "fn=" + fname(fn)
	if remCall == nil {
		// the removal moved into a helper of the location (a gated RemRule in front of an ungated remRule): decide there
		var helper *ssa.Function
		allInstrs(fn, func(in ssa.Instruction) {
			c := callOf(in)
			if c == nil || c.StaticCallee() == nil || helper != nil || c.StaticCallee() == fn {
				return
			}
			g := c.StaticCallee()
			if g.Signature.Recv() == nil || len(g.Blocks) == 0 {
				return
			}
			if rn := namedOf(g.Signature.Recv().Type()); rn == nil || rn.Obj().Name() != "Location" {
				return
			}
			allInstrs(g, func(x ssa.Instruction) {
				if _, ok := a.stateCall(x, map[string]bool{"Rem": true}); ok && remCall == nil {
					remCall = x
					helper = g
				}
			})
		})
		if helper != nil {
			fn = helper
		}
	}
	if remCall == nil {
		r.violation("REM-FLAG", key, w.Pos(fn.Pos()), "RemRule no longer calls State.Rem")
		return
	}
	isDisabledArg := func(c *ssa.CallCommon) bool {
		for _, arg := range c.Args {
			if s, ok := constString(arg); ok && s == "disabled" {
				return true
			}
		}
		return false
	}
	isRemProp := func(in ssa.Instruction) bool {
		c := callOf(in)
		return c != nil && isPkgFunc(calleeObj(c), modPath+"/core", "RemProp") && isDisabledArg(c)
	}
	// edges: Rem's error nil, flag present
	type edge struct {
		b *ssa.BasicBlock
		i int
	}
	del := map[edge]bool{}
	for _, b := range fn.Blocks {
		if len(b.Instrs) == 0 {
			continue
		}
		ifi, ok := b.Instrs[len(b.Instrs)-1].(*ssa.If)
		if !ok {
			continue
		}
		ct, ok := decodeIf(ifi)
		if !ok {
			continue
		}
		if ex, ok := ct.V.(*ssa.Extract); ok {
			if c, ok := ex.Tuple.(*ssa.Call); ok {
				if ssa.Instruction(c) == remCall && ex.Index == 1 {
					// error of State.Rem: delete the non-nil edge
					if ct.TrueWhen == "nonnil" {
						del[edge{b, 0}] = true
					} else if ct.TrueWhen == "nil" {
						del[edge{b, 1}] = true
					}
				}
				if isPkgFunc(calleeObj(c.Common()), modPath+"/core", "GetProp") && isDisabledArg(c.Common()) && ex.Index == 1 {
					// have == false edge
					if ct.TrueWhen == "true" {
						del[edge{b, 1}] = true
					} else if ct.TrueWhen == "false" {
						del[edge{b, 0}] = true
					}
				}
			}
		}
	}
	ef := func(from *ssa.BasicBlock, si int) bool { return !del[edge{from, si}] }
	if h, path := reach(fn, remCall, isExit, isRemProp, ef); h != nil {
		r.violation("REM-FLAG", key, w.PosOf(h), "RemRule can return after a successful removal, with the flag present, without removing the `disabled` property", blockPathString(w, path)...)
	} else {
		r.ok("REM-FLAG", key, w.Pos(fn.Pos()), "the disabled flag is removed with the rule")
	}
}

func init() {
	register(&propertySpec{
		ID:      "C10",
		Explain: "Static gate / pairing rules for the rule lifecycle: every Location entry refuses on the disabled edge before touching state (GATE-E), dispatch appends a rule only behind RuleEnabled == true (DISP-ENABLED), re-adding or removing an id drops the cached parse (CACHE-INV), and RemRule removes the disabled flag (REM-FLAG). Does not decide the state machine over histories, reload survival or inherited disablement.",
		Rules:   []ruleFn{ruleIdxEmptyAll("C10"), ruleGateE, ruleDispEnabled, ruleCacheInv, ruleRemFlag, ruleDeleteWithProvenance, ruleIdxRem, ruleStoreBeforeMem("C10"), ruleGateFire, ruleIdxRollback("C10"), ruleAddExpiresStale, rulePropDwAny("C10"), ruleCacheGen("C10"), ruleStateFresh("C10"), ruleFlagNoLease},
	})
}

// ruleIdSetAtCreation: every State implementation's FindCachedRules stores into Rule.Id before it puts the rule
// into the cache.
func ruleIdSetAtCreation(w *World) bool {
	a := newLocAnchors(w)
	n := 0
	for nm := range a.stateImp {
		fn := w.TryMethod(typeRel(nm), nm.Obj().Name(), "FindCachedRules")
		if fn == nil {
			return false
		}
		// the store of the key into Rule.Id dominates the publication of the rule in the cache (an assignment that is
		// made only `if rule.Id == ""` keeps an id the rule's body brought along)
		ok := false
		var pubs []ssa.Instruction
		publishes := func(g *ssa.Function) bool {
			found := false
			allInstrs(g, func(in ssa.Instruction) {
				if mu, isMU := in.(*ssa.MapUpdate); isMU {
					if nm2, f2, _, isF := loadedField(mu.Map); isF && f2 == "cachedRules" && typeKey(nm2) == typeKey(nm) {
						found = true
					}
				}
			})
			return found
		}
		allInstrs(fn, func(in ssa.Instruction) {
			if mu, isMU := in.(*ssa.MapUpdate); isMU {
				if nm2, f2, _, isF := loadedField(mu.Map); isF && f2 == "cachedRules" && typeKey(nm2) == typeKey(nm) {
					pubs = append(pubs, in)
				}
			}
			// or through a helper of the state that does the map update (under the cache's own lock)
			if c := callOf(in); c != nil && c.StaticCallee() != nil && c.StaticCallee() != fn && len(c.StaticCallee().Blocks) > 0 && publishes(c.StaticCallee()) {
				pubs = append(pubs, in)
			}
		})
		allInstrs(fn, func(in ssa.Instruction) {
			if _, is := storesToField(in, "core.Rule", "Id"); is {
				all := len(pubs) > 0
				for _, p := range pubs {
					if !instrDominates(in, p) {
						all = false
					}
				}
				if all {
					ok = true
				}
			}
		})
		if !ok {
			return false
		}
		n++
	}
	return n > 0
}
