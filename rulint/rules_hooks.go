package main

// rules_hooks.go: C15 — the coupling between state changes and the cron service (HOOK-REM, HOOK-ADD, ONESHOT),
// and CRON-KEY (shared with C09).

import (
	"go/types"
	"strings"

	"golang.org/x/tools/go/ssa"
)

var stateFactField = map[string]string{"core.IndexedState": "IdToFact", "core.LinearState": "Facts"}

// hookCall: in is a dynamic call through the loaded hook field (remHook / addHook) of owner; returns its id argument.
func hookCall(owner, field string, in ssa.Instruction) (ssa.Value, bool) {
	c := callOf(in)
	if c == nil || c.IsInvoke() || c.StaticCallee() != nil {
		return nil, false
	}
	if !isFieldLoad(c.Value, owner, field) {
		return nil, false
	}
	if len(c.Args) >= 3 {
		return c.Args[2], true // (ctx, state, id, ...)
	}
	return nil, true
}

// nilHookEdges deletes the edges on which the hook field is nil (no hook installed: nothing to call).
func nilHookEdges(owner, field string, fn *ssa.Function) edgeFilter {
	type edge struct {
		b *ssa.BasicBlock
		i int
	}
	del := map[edge]bool{}
	for _, b := range fn.Blocks {
		if len(b.Instrs) == 0 {
			continue
		}
		ifi, ok := b.Instrs[len(b.Instrs)-1].(*ssa.If)
		if !ok {
			continue
		}
		ct, ok := decodeIf(ifi)
		if !ok || !isFieldLoad(ct.V, owner, field) {
			continue
		}
		if ct.TrueWhen == "nonnil" {
			del[edge{b, 1}] = true
		} else if ct.TrueWhen == "nil" {
			del[edge{b, 0}] = true
		}
	}
	return func(from *ssa.BasicBlock, si int) bool { return !del[edge{from, si}] }
}

// coversAllHelper: a same-type function that calls the hook for every key of the fact map (range loop).
func coversAllHelpers(w *World, a *locAnchors, field string) map[*ssa.Function]bool {
	out := map[*ssa.Function]bool{}
	for _, fn := range w.Funcs {
		owner, ok := stateOwnerOf(a, fn)
		if !ok || isTestFile(w, fn) {
			continue
		}
		allInstrs(fn, func(in ssa.Instruction) {
			id, ok := hookCall(owner, field, in)
			if !ok || id == nil {
				return
			}
			if dependsOn(id, func(v ssa.Value) bool {
				nx, ok := v.(*ssa.Next)
				if !ok {
					return false
				}
				rg, ok := nx.Iter.(*ssa.Range)
				return ok && isFieldLoad(rg.X, owner, stateFactField[owner])
			}) {
				out[fn] = true
			}
		})
	}
	return out
}

func ruleHookRem(w *World, r *Report) {
	r.Rule("HOOK-REM", "in each State implementation every removal from the fact map (delete of an id, or wholesale reset) is preceded on its path, when a removal hook is installed, by the removal hook for the removed id (or for all ids); the hook is what unschedules a rule with the cron service, so a removal that bypasses it leaves the rule firing", 6)
	a := newLocAnchors(w)
	all := coversAllHelpers(w, a, "remHook")
	spec := coverSpec{
		Event: func(owner string, fn *ssa.Function, in ssa.Instruction) (ssa.Value, string, bool) {
			ff := stateFactField[owner]
			if ff == "" {
				return nil, "", false
			}
			if c := callOf(in); c != nil {
				if b, ok := c.Value.(*ssa.Builtin); ok && b.Name() == "delete" && len(c.Args) == 2 && isFieldLoad(c.Args[0], owner, ff) {
					return c.Args[1], "an id is deleted from " + owner + "." + ff + " without the removal hook having run for it", true
				}
			}
			if st, ok := storesToField(in, owner, ff); ok && !isFreshAt(addrBase(st.Addr), in) && fn.Name() != "Load" {
				return nil, owner + "." + ff + " is reset wholesale without the removal hook having run for its ids", true
			}
			return nil, "", false
		},
		Cover: func(owner string, fn *ssa.Function, in ssa.Instruction) (ssa.Value, bool, bool) {
			if id, ok := hookCall(owner, "remHook", in); ok {
				return id, false, true
			}
			if c := callOf(in); c != nil {
				if f := c.StaticCallee(); f != nil && all[f] {
					return nil, true, true
				}
			}
			return nil, false, false
		},
		Edges: func(owner string, fn *ssa.Function) edgeFilter { return nilHookEdges(owner, "remHook", fn) },
		// Load replaces the map of a state that holds nothing yet, itself (above) or through a `reset` helper
		VoidAllIn: func(fn *ssa.Function) bool { return fn.Name() == "Load" && fn.Parent() == nil },
	}
	e := newCoverEngine(w, a, spec)
	e.report(r, "HOOK-REM", func(fn *ssa.Function, n *coverNeed) string { return "" })
}

func ruleHookAdd(w *World, r *Report) {
	r.Rule("HOOK-ADD", "in each State implementation every insertion into the fact map is preceded on its path, when an add hook is installed, by the add hook for the inserted id (the hook schedules rules with the cron service; a reloaded location must register its scheduled rules again with a non-persistent cron)", 3)
	a := newLocAnchors(w)
	spec := coverSpec{
		Event: func(owner string, fn *ssa.Function, in ssa.Instruction) (ssa.Value, string, bool) {
			ff := stateFactField[owner]
			if mu, ok := in.(*ssa.MapUpdate); ok && ff != "" && isFieldLoad(mu.Map, owner, ff) {
				return mu.Key, "an id is inserted into " + owner + "." + ff + " without the add hook having run for it", true
			}
			return nil, "", false
		},
		Cover: func(owner string, fn *ssa.Function, in ssa.Instruction) (ssa.Value, bool, bool) {
			if id, ok := hookCall(owner, "addHook", in); ok {
				return id, false, true
			}
			return nil, false, false
		},
		Edges: func(owner string, fn *ssa.Function) edgeFilter { return nilHookEdges(owner, "addHook", fn) },
	}
	e := newCoverEngine(w, a, spec)
	e.report(r, "HOOK-ADD", func(fn *ssa.Function, n *coverNeed) string { return "" })
}

// ONESHOT: RuleDone.Do removes a one-shot rule; WorkWalk runs DoneWork after the rule's children.
func ruleOneShot(w *World, r *Report) {
	r.Rule("ONESHOT", "RuleDone.Do calls Location.RemRule on the true edge of OneShotSchedule(rule.Schedule) and reports a failed removal in its disposition; WorkWalk invokes RuleDone.Do for every evaluated rule", 2)
	do := w.Method("core", "RuleDone", "Do")
	a := newLocAnchors(w)
	one := gateSpec{Name: "OneShotSchedule", FailWhen: "false", Idx: -1, IsGate: func(c *ssa.CallCommon) bool {
		return isPkgFunc(calleeObj(c), modPath+"/core", "OneShotSchedule")
	}}
	// on the one-shot edge every path to an exit passes RemRule: delete the *not* one-shot edges and look for an exit without RemRule
	g := newGateEngine(w, []gateSpec{{Name: one.Name, FailWhen: "true", Idx: -1, IsGate: one.IsGate}}, nil, nil)
	ef, nt := g.passEdgeFilter(do)
	isRemRule := func(in ssa.Instruction) bool { c := callOf(in); return c != nil && a.isLocMethod(c, "RemRule") }
	key := "fn=" + fname(do)
	if nt == 0 {
		r.violation("ONESHOT", key, w.Pos(do.Pos()), "RuleDone.Do no longer tests OneShotSchedule")
	} else if h, path := reach(do, nil, isExit, isRemRule, ef); h != nil {
		r.violation("ONESHOT", key, w.PosOf(h), "a one-shot rule can complete without being removed", blockPathString(w, path)...)
	} else {
		r.ok("ONESHOT", key, w.Pos(do.Pos()), "one-shot rules are removed after they ran")
	}
	// WorkWalk calls RuleDone.Do
	ww := w.Method("core", "Location", "WorkWalk")
	calls := false
	allInstrs(ww, func(in ssa.Instruction) {
		if c := callOf(in); c != nil && c.StaticCallee() == do {
			calls = true
		}
	})
	if calls {
		r.ok("ONESHOT", "fn="+fname(ww)+" calls RuleDone.Do", w.Pos(ww.Pos()), "the walk runs the rule-done step")
	} else {
		r.violation("ONESHOT", "fn="+fname(ww)+" calls RuleDone.Do", w.Pos(ww.Pos()), "WorkWalk no longer runs RuleDone.Do")
	}
}

// CRON-KEY: with one Cronner shared by all locations, the job key must depend on the location.
func ruleCronKey(prop string) ruleFn {
	return func(w *World, r *Report) {
		r.Rule("CRON-KEY", "premise: sys.System hands one shared Cronner to every location (checked).  Conclusion: in every Cronner implementation the key under which ScheduleEvent registers a job, and under which Rem removes it, depends on the location as well as on the rule id; otherwise rule `r` of one location replaces or unschedules rule `r` of another", 2)
		// premise
		nl := w.Method("sys", "System", "newLocation")
		shared := false
		allInstrs(nl, func(in ssa.Instruction) {
			c := callOf(in)
			if c == nil || !isPkgFunc(calleeObj(c), modPath+"/cron", "AddHooks") || len(c.Args) < 2 {
				return
			}
			if isFieldLoad(c.Args[1], "sys.System", "cron") {
				shared = true
			}
		})
		if !shared {
			r.info("CRON-KEY", "premise", w.Pos(nl.Pos()), "premise false: newLocation no longer hands the System's shared cron to AddHooks; per-location crons need no location-qualified key")
			return
		}
		r.ok("CRON-KEY", "premise shared cronner", w.Pos(nl.Pos()), "System.newLocation passes the System's single cron field to cron.AddHooks")
		iface := w.Iface("cron", "Cronner")
		for _, n := range w.Implementers(iface) {
			for _, mname := range []string{"ScheduleEvent", "Rem"} {
				fn := w.TryMethod(typeRel(n), n.Obj().Name(), mname)
				if fn == nil {
					continue
				}
				key := "impl=" + fname(fn)
				// find the call that hands a key to the underlying store: any call (other than logging / parsing)
				// that takes a string argument derived from the id (parameter `id` or field Id of the event)
				ctxParam := fn.Params[1]
				dependsOnLocation := func(v ssa.Value) bool { return locationDependent(w, v, ctxParam, 0) }
				var keyUses []ssa.Instruction
				locQualified := true
				allInstrs(fn, func(in ssa.Instruction) {
					c := callOf(in)
					if c == nil {
						return
					}
					o := calleeObj(c)
					if o == nil || isLogCall(o) {
						return
					}
					if sig, ok := o.Type().(*types.Signature); !ok || sig.Recv() == nil {
						return // plain helper functions (key builders, parsers): only method calls hand the key to a job store
					}
					for _, arg := range c.Args {
						b, ok := arg.Type().Underlying().(*types.Basic)
						if !ok || b.Kind() != types.String {
							continue
						}
						if !dependsOnID(fn, arg) {
							continue
						}
						keyUses = append(keyUses, in)
						// location dependence: the same argument, or another string argument of the same call
						depLoc := dependsOnLocation(arg)
						for _, other := range c.Args {
							if ob, ok := other.Type().Underlying().(*types.Basic); ok && ob.Kind() == types.String && other != arg && dependsOnLocation(other) {
								depLoc = true
							}
						}
						if !depLoc {
							locQualified = false
						}
					}
				})
				if len(keyUses) == 0 {
					r.info("CRON-KEY", key, w.Pos(fn.Pos()), "no call takes a key derived from the id (nothing registered here)")
					continue
				}
				if locQualified {
					r.ok("CRON-KEY", key, w.PosOf(keyUses[0]), "the job key depends on the location")
				} else {
					r.violation("CRON-KEY", key, w.PosOf(keyUses[0]), "the job is keyed by the rule id alone although the cron is shared by all locations")
				}
			}
		}
	}
}

func isLogCall(o *types.Func) bool {
	return o.Name() == "Log" || strings.HasPrefix(o.Name(), "Sprintf") || o.Name() == "Errorf" || o.Name() == "ParseSchedule"
}

// dependsOnID: v derives from a parameter named id or from field Id of a parameter.
func dependsOnID(fn *ssa.Function, v ssa.Value) bool {
	return dependsOn(v, func(x ssa.Value) bool {
		if p, ok := x.(*ssa.Parameter); ok && p.Name() == "id" {
			return true
		}
		if fa, ok := x.(*ssa.FieldAddr); ok {
			if _, f, base, ok := fieldOf(fa); ok && f == "Id" {
				if _, isParam := base.(*ssa.Parameter); isParam {
					return true
				}
			}
		}
		return false
	})
}

func init() {
	register(&propertySpec{
		ID:      "C15",
		Explain: "Static pairing rules for the coupling between state changes and the cron service: the add / removal hooks are run for every id that enters / leaves a state's fact map, one-shot rules are removed after they ran, and the key under which a shared cron service registers a rule depends on the location. Does not decide tick timing or which location a tick is evaluated in.",
		Rules:   []ruleFn{ruleGateKeys, ruleHookRem, ruleHookAdd, ruleHooksBeforeLoad, ruleOneShot, ruleCronResched, ruleCronRearm("C15"), ruleTimelineOrder("C15"), ruleCroltURL("C15"), ruleCronKey("C15"), ruleHookAddKeeps, ruleCronNextZero("C15"), ruleOneShotAgree, ruleHookBeforeStore("C15"), ruleHookReplace, ruleHookRemMissing, ruleHookLoadTolerant("C15"), ruleCroltEscape("C15"), ruleJSONQuote("C15", "cron"), ruleCronInflight("C15"), ruleCroltStatus("C15"), ruleCronLimitFirst("C15"), ruleCtxPerGoroutine("C15"), ruleCronKeyInj("C15"), ruleScheduleRegisters},
	})
}

// locationDependent: v derives from ctx.Location() / ctx.GetLoc() of the given context value, directly or
// through a rulio helper that takes the context and returns something derived from its location.
func locationDependent(w *World, v ssa.Value, ctx ssa.Value, depth int) bool {
	if depth > 3 {
		return false
	}
	return dependsOn(v, func(x ssa.Value) bool {
		c, ok := x.(*ssa.Call)
		if !ok {
			return false
		}
		cc := c.Common()
		if len(cc.Args) > 0 && valueIs(cc.Args[0], ctx) {
			if o := calleeObj(cc); o != nil && (o.Name() == "Location" || o.Name() == "GetLoc") && isMethodOf(o, modPath+"/core", "Context", o.Name()) {
				return true
			}
		}
		f := cc.StaticCallee()
		if f == nil || f.Blocks == nil || !w.IsRulio(f) {
			return false
		}
		for i, a := range cc.Args {
			if !valueIs(a, ctx) || i >= len(f.Params) {
				continue
			}
			res := false
			allInstrs(f, func(in ssa.Instruction) {
				if ret, ok := in.(*ssa.Return); ok {
					for _, rv := range ret.Results {
						if locationDependent(w, rv, f.Params[i], depth+1) {
							res = true
						}
					}
				}
			})
			if res {
				return true
			}
		}
		return false
	})
}

// valueIs: v is target, or a load of a local slot into which only target is stored (a parameter that
// escapes into a closure is kept in such a slot).
func valueIs(v, target ssa.Value) bool {
	if v == target {
		return true
	}
	u, ok := v.(*ssa.UnOp)
	if !ok {
		return false
	}
	a, ok := u.X.(*ssa.Alloc)
	if !ok {
		return false
	}
	n := 0
	for _, ref := range *a.Referrers() {
		if st, ok := ref.(*ssa.Store); ok && st.Addr == a {
			n++
			if st.Val != target {
				return false
			}
		}
	}
	return n > 0
}
