package main

// rules_index.go: C01 — the rule index and the parsed-rule cache stay in step with the stored rules.

import (
	"go/token"
	"go/types"
	"sort"
	"strings"

	"golang.org/x/tools/go/ssa"
)

const idxState = "core.IndexedState"

// ---- CACHE-INV ---------------------------------------------------------------------------------

// CACHE-INV: every write to a state's fact map is accompanied, on the same path, by an invalidation of
// the parsed-rule cache (delete of the id or reset of the map), in the function or in every caller.
func ruleCacheInv(w *World, r *Report) {
	r.Rule("CACHE-INV", "every path through a State implementation that writes the fact map (insert, replace, delete, wholesale reset) also invalidates the parsed-rule cache (delete(cachedRules, id) or a reset) before the write or before returning; a missing invalidation lets a replaced or removed rule keep firing from the cache", 6)
	a := newLocAnchors(w)
	factField := map[string]string{}
	for n := range a.stateImp {
		st := structOf(n)
		for i := 0; i < st.NumFields(); i++ {
			name := st.Field(i).Name()
			if name == "IdToFact" || name == "Facts" {
				factField[typeKey(n)] = name
			}
		}
		hasCache := false
		for i := 0; i < st.NumFields(); i++ {
			if st.Field(i).Name() == "cachedRules" {
				hasCache = true
			}
		}
		if !hasCache || factField[typeKey(n)] == "" {
			undecided("CACHE-INV: %s has no cachedRules / fact map field", typeKey(n))
		}
	}
	var layer []*ssa.Function
	for _, fn := range w.Funcs {
		if _, ok := stateOwnerOf(a, fn); ok && !isTestFile(w, fn) && fn.Synthetic == "" {
			layer = append(layer, fn)
		}
	}
	// setsOnly: an entry of the fact map is set (inserted or replaced).  A removal (delete, wholesale reset) needs no
	// invalidation of its own as long as every set invalidates: the cache is only ever consulted for ids that the
	// rule index just produced, so an entry for an id that has no fact is never looked at, and the set that brings
	// the id back drops it.  The rule is first run over all writes; what is uncovered then is a violation only if
	// it is also uncovered when removals are left out (a removal without invalidation next to a set without one).
	setsOnly := false
	isMemWrite := func(owner string, in ssa.Instruction) bool {
		if setsOnly {
			mu, ok := in.(*ssa.MapUpdate)
			return ok && isFieldLoad(mu.Map, owner, factField[owner])
		}
		if writesThroughField(in, owner, factField[owner]) {
			return true
		}
		_, ok := storesToField(in, owner, factField[owner])
		return ok
	}
	isCacheInv := func(owner string, in ssa.Instruction) bool {
		if _, isDefer := in.(*ssa.Defer); isDefer {
			return false
		}
		if c := callOf(in); c != nil {
			if b, ok := c.Value.(*ssa.Builtin); ok && b.Name() == "delete" && len(c.Args) > 0 && isFieldLoad(c.Args[0], owner, "cachedRules") {
				return true
			}
			// a cache that is a sync.Map (or another container with methods): s.cachedRules.Delete(id), .Clear(), .Range(...)
			if f := c.StaticCallee(); f != nil && f.Signature.Recv() != nil && len(c.Args) > 0 {
				switch f.Name() {
				case "Delete", "LoadAndDelete", "Clear", "Range", "Purge", "Remove":
					if n, fld, _, ok := fieldOf(c.Args[0]); ok && typeKey(n) == owner && fld == "cachedRules" {
						return true
					}
				}
			}
		}
		_, ok := storesToField(in, owner, "cachedRules")
		return ok
	}
	// alwaysInv[f]: every path from entry to a return passes an invalidation
	alwaysInv := map[*ssa.Function]bool{}
	needs := map[*ssa.Function]ssa.Instruction{} // function -> an uncovered memory-write event
	var setNeeds map[*ssa.Function]ssa.Instruction
	sameOwnerCallee := func(owner string, in ssa.Instruction) *ssa.Function {
		if c := callOf(in); c != nil {
			if f := c.StaticCallee(); f != nil {
				if o2, ok := stateOwnerOf(a, f); ok && o2 == owner {
					return f
				}
			}
		}
		return nil
	}
	for pass := 0; pass < 2; pass++ {
		if pass == 0 {
			setsOnly = true
		} else {
			setsOnly = false
			setNeeds = needs
			needs = map[*ssa.Function]ssa.Instruction{}
		}
		for changed := true; changed; {
			changed = false
			for _, fn := range layer {
				owner, _ := stateOwnerOf(a, fn)
				isC := func(in ssa.Instruction) bool {
					if isCacheInv(owner, in) {
						return true
					}
					if f := sameOwnerCallee(owner, in); f != nil && alwaysInv[f] {
						return true
					}
					return false
				}
				if !alwaysInv[fn] {
					if h, _ := reach(fn, nil, isExit, isC, nil); h == nil {
						alwaysInv[fn], changed = true, true
					}
				}
				// uncovered memory writes
				var uncovered ssa.Instruction
				allInstrs(fn, func(in ssa.Instruction) {
					if uncovered != nil {
						return
					}
					isM := isMemWrite(owner, in)
					if f := sameOwnerCallee(owner, in); f != nil && f != fn && needs[f] != nil {
						isM = true
					}
					if !isM {
						return
					}
					// covered if C precedes on every path from entry, or follows on every path to exit
					if h, _ := reach(fn, nil, func(x ssa.Instruction) bool { return x == in }, isC, nil); h == nil {
						return
					}
					if h, _ := reach(fn, in, isExit, isC, nil); h == nil {
						return
					}
					uncovered = in
				})
				if (uncovered != nil) != (needs[fn] != nil) {
					needs[fn] = uncovered
					changed = true
				}
			}
		}
	}
	// any set without invalidation, anywhere in the layer (sets-only pass)?
	setUncovered := false
	for _, fn := range layer {
		if setNeeds[fn] == nil {
			continue
		}
		if fn.Name() == "Load" {
			continue
		}
		outside := false
		ncall := 0
		owner, _ := stateOwnerOf(a, fn)
		for _, e := range w.Callers(fn) {
			cf := e.Caller.Func
			if isTestFile(w, cf) || cf.Synthetic != "" {
				continue
			}
			ncall++
			if o2, ok := stateOwnerOf(a, cf); !ok || o2 != owner {
				outside = true
			}
		}
		exported := fn.Object() != nil && fn.Object().Exported() && fn.Parent() == nil
		if outside || (ncall == 0 && exported) || (exported && implementsStateMethod(a, fn)) {
			setUncovered = true
		}
	}
	exemptLoad := "Load populates a state that has not dispatched any event yet (the cache is empty: it is filled only by FindCachedRules on a loaded state)"
	for _, fn := range layer {
		owner, _ := stateOwnerOf(a, fn)
		hasMem := false
		allInstrs(fn, func(in ssa.Instruction) {
			if isMemWrite(owner, in) {
				hasMem = true
			}
			if f := sameOwnerCallee(owner, in); f != nil && f != fn && needs[f] != nil {
				hasMem = true
			}
		})
		if !hasMem {
			continue
		}
		key := "fn=" + fname(fn)
		if needs[fn] == nil {
			r.ok("CACHE-INV", key, w.Pos(fn.Pos()), "every fact-map write is paired with a cache invalidation in this function")
			continue
		}
		// is the requirement absorbed by every caller inside the owner?
		outside := false
		ncall := 0
		for _, e := range w.Callers(fn) {
			cf := e.Caller.Func
			if isTestFile(w, cf) || cf.Synthetic != "" {
				continue
			}
			ncall++
			if o2, ok := stateOwnerOf(a, cf); !ok || o2 != owner {
				if cc := e.Site.Common(); !cc.IsInvoke() && len(cc.Args) > 0 && isFreshAt(cc.Args[0], e.Site) {
					continue // constructor
				}
				outside = true
			}
		}
		exported := fn.Object() != nil && fn.Object().Exported() && fn.Parent() == nil
		if outside || (ncall == 0 && exported) || (exported && implementsStateMethod(a, fn)) {
			if fn.Name() == "Load" {
				r.exempt("CACHE-INV", key, w.PosOf(needs[fn]), exemptLoad)
				continue
			}
			if setNeeds[fn] == nil && !setUncovered {
				r.ok("CACHE-INV", key, w.PosOf(needs[fn]), "a removal without an invalidation of its own: every path that sets a fact invalidates, so an entry left behind for a removed id is never looked at and goes when the id comes back")
				continue
			}
			r.violation("CACHE-INV", key, w.PosOf(needs[fn]), "the fact map is written on a path that never invalidates the parsed-rule cache")
		} else {
			r.ok("CACHE-INV", key, w.PosOf(needs[fn]), "helper: the invalidation is provided by every caller (checked there)")
		}
	}
}

func implementsStateMethod(a *locAnchors, fn *ssa.Function) bool {
	iface := a.State.Underlying().(*types.Interface)
	for i := 0; i < iface.NumMethods(); i++ {
		if iface.Method(i).Name() == fn.Name() {
			return true
		}
	}
	return false
}

// ---- IDX-REM / IDX-ADD ---------------------------------------------------------------------------

// edge filter helpers: delete edges on which "the stored fact does not exist" / "it is not a rule" / "rule is scheduled".
func idxEdgeFilter(fn *ssa.Function, delAbsent, delNotRule, delScheduled bool) edgeFilter {
	type edge struct {
		b *ssa.BasicBlock
		i int
	}
	del := map[edge]bool{}
	isExtractRule := func(c *ssa.Call) bool {
		return isPkgFunc(calleeObj(c.Common()), modPath+"/core", "ExtractRule")
	}
	for _, b := range fn.Blocks {
		if len(b.Instrs) == 0 {
			continue
		}
		ifi, ok := b.Instrs[len(b.Instrs)-1].(*ssa.If)
		if !ok {
			continue
		}
		ct, ok := decodeIf(ifi)
		if !ok {
			continue
		}
		// `have` of a comma-ok lookup
		if ex, ok := ct.V.(*ssa.Extract); ok && ex.Index == 1 {
			if lk, ok := ex.Tuple.(*ssa.Lookup); ok && lk.CommaOk {
				falseIdx := 1
				if ct.TrueWhen == "false" {
					falseIdx = 0
				}
				trueIdx := 1 - falseIdx
				if delAbsent && isFieldLoad(lk.X, idxState, "IdToFact") {
					del[edge{b, falseIdx}] = true
				}
				if delScheduled {
					if s, ok := constString(lk.Index); ok && s == "schedule" {
						del[edge{b, trueIdx}] = true
					}
				}
			}
		}
		// `scheduledRule(rule)`: a predicate of the package that answers false when the key is absent
		if delScheduled && (ct.TrueWhen == "true" || ct.TrueWhen == "false") {
			if c, ok := resolveSpill(ct.V).(*ssa.Call); ok && isSchedulePredicate(c.Common().StaticCallee()) {
				if ct.TrueWhen == "true" {
					del[edge{b, 0}] = true
				} else {
					del[edge{b, 1}] = true
				}
			}
		}
		// rule == nil
		if delNotRule && (ct.TrueWhen == "nil" || ct.TrueWhen == "nonnil") && derivesFromCall(ct.V, isExtractRule, 0) {
			nilIdx := 0
			if ct.TrueWhen == "nonnil" {
				nilIdx = 1
			}
			del[edge{b, nilIdx}] = true
		}
	}
	return func(from *ssa.BasicBlock, si int) bool { return !del[edge{from, si}] }
}

// isSchedulePredicate: f returns one bool, looks up the key "schedule" (comma-ok) and returns false when it is absent:
// `true` therefore means `the rule has a schedule`.
func isSchedulePredicate(f *ssa.Function) bool {
	if f == nil || len(f.Blocks) == 0 || f.Signature.Results().Len() != 1 {
		return false
	}
	if b, ok := f.Signature.Results().At(0).Type().Underlying().(*types.Basic); !ok || b.Kind() != types.Bool {
		return false
	}
	okShape := false
	for _, b := range f.Blocks {
		if len(b.Instrs) == 0 {
			continue
		}
		ifi, ok := b.Instrs[len(b.Instrs)-1].(*ssa.If)
		if !ok {
			continue
		}
		ct, ok := decodeIf(ifi)
		if !ok {
			continue
		}
		ex, ok := ct.V.(*ssa.Extract)
		if !ok || ex.Index != 1 {
			continue
		}
		lk, ok := ex.Tuple.(*ssa.Lookup)
		if !ok || !lk.CommaOk {
			continue
		}
		if k, isC := constString(lk.Index); !isC || k != "schedule" {
			continue
		}
		absent := b.Succs[1]
		if ct.TrueWhen == "false" {
			absent = b.Succs[0]
		}
		if len(absent.Instrs) > 0 {
			if ret, ok := absent.Instrs[len(absent.Instrs)-1].(*ssa.Return); ok && len(ret.Results) == 1 {
				if v, isC := isConstBool(resolveSpill(ret.Results[0])); isC && !v {
					okShape = true
				}
			}
		}
	}
	return okShape
}

// callsPatternOp: in calls (directly or through a same-type wrapper taking the rule map) PatternIndex.<op>;
// returns the rule/pattern argument.
func patternOpArg(w *World, in ssa.Instruction, op string, wrappers map[*ssa.Function]int) (ssa.Value, bool) {
	c := callOf(in)
	if c == nil {
		return nil, false
	}
	if _, isDefer := in.(*ssa.Defer); isDefer {
		return nil, false
	}
	o := calleeObj(c)
	if isMethodOf(o, modPath+"/core", "PatternIndex", op) && len(c.Args) >= 3 {
		return c.Args[2], true // recv, ctx, m, id
	}
	if f := c.StaticCallee(); f != nil {
		if idx, ok := wrappers[f]; ok && idx < len(c.Args) {
			return c.Args[idx], true
		}
	}
	return nil, false
}

// patternWrappers: methods of IndexedState that pass (something derived from) one of their parameters to PatternIndex.<op>.
func patternWrappers(w *World, op string) map[*ssa.Function]int {
	out := map[*ssa.Function]int{}
	n := w.Named("core", "IndexedState")
	for _, fn := range w.MethodsOf(n) {
		allInstrs(fn, func(in ssa.Instruction) {
			c := callOf(in)
			if c == nil || !isMethodOf(calleeObj(c), modPath+"/core", "PatternIndex", op) || len(c.Args) < 3 {
				return
			}
			for i, p := range fn.Params {
				if i == 0 {
					continue
				}
				if _, isMap := p.Type().Underlying().(*types.Map); !isMap {
					continue
				}
				if dependsOn(c.Args[2], func(v ssa.Value) bool { return v == ssa.Value(p) }) {
					out[fn] = i
				}
			}
		})
	}
	return out
}

func ruleIdxRem(w *World, r *Report) {
	r.Rule("IDX-REM", "in IndexedState every delete or replacement of IdToFact[id] is preceded, on every path on which the stored fact exists and is a rule, by PatternIndex.RemPatternMap (directly or through unindexRule) with a pattern derived from the *stored* fact (a lookup in IdToFact), never from the incoming argument", 2)
	wr := patternWrappers(w, "RemPatternMap")
	n := w.Named("core", "IndexedState")
	found := 0
	for _, fn := range w.MethodsOf(n) {
		var writes []ssa.Instruction
		allInstrs(fn, func(in ssa.Instruction) {
			if writesThroughField(in, idxState, "IdToFact") {
				writes = append(writes, in)
			}
		})
		if len(writes) == 0 {
			continue
		}
		ef := idxEdgeFilter(fn, true, true, false)
		isStoredLookup := func(v ssa.Value) bool {
			lk, ok := v.(*ssa.Lookup)
			return ok && isFieldLoad(lk.X, idxState, "IdToFact")
		}
		var wrongArg ssa.Instruction
		isGoodRem := func(in ssa.Instruction) bool {
			arg, ok := patternOpArg(w, in, "RemPatternMap", wr)
			if !ok {
				return false
			}
			if dependsOn(arg, isStoredLookup) {
				return true
			}
			wrongArg = in
			return false
		}
		for _, wi := range writes {
			found++
			key := "fn=" + fname(fn) + " write=" + writeKind(wi)
			wi := wi
			hit, path := reach(fn, nil, func(x ssa.Instruction) bool { return x == wi }, isGoodRem, ef)
			if hit == nil {
				r.ok("IDX-REM", key, w.PosOf(wi), "the stored rule's pattern is removed from the index before the fact map changes")
				continue
			}
			detail := "IdToFact is changed on a path (stored fact exists and is a rule) that does not first remove the stored rule's pattern from the rule index"
			if wrongArg != nil {
				detail += "; the un-indexing at " + w.PosOf(wrongArg) + " uses a pattern that does not derive from the stored fact"
			}
			r.violation("IDX-REM", key, w.PosOf(wi), detail, blockPathString(w, path)...)
		}
	}
	r.stat("IDX-REM.fact_map_writes", found)
}

func writeKind(in ssa.Instruction) string {
	switch in.(type) {
	case *ssa.MapUpdate:
		return "insert"
	case *ssa.Store:
		return "store"
	}
	return "delete"
}

func ruleIdxAdd(w *World, r *Report) {
	r.Rule("IDX-ADD", "in IndexedState every insertion into IdToFact is preceded, on every path on which the prepared fact is a non-scheduled rule, by PatternIndex.AddPatternMap (directly or through indexRule) with a pattern derived from that same prepared fact", 1)
	wr := patternWrappers(w, "AddPatternMap")
	n := w.Named("core", "IndexedState")
	found := 0
	for _, fn := range w.MethodsOf(n) {
		var inserts []ssa.Instruction
		allInstrs(fn, func(in ssa.Instruction) {
			if mu, ok := in.(*ssa.MapUpdate); ok && isFieldLoad(mu.Map, idxState, "IdToFact") {
				inserts = append(inserts, in)
			}
		})
		if len(inserts) == 0 {
			continue
		}
		ef := idxEdgeFilter(fn, false, true, true)
		for _, ins := range inserts {
			found++
			mu := ins.(*ssa.MapUpdate)
			key := "fn=" + fname(fn)
			isGoodAdd := func(in ssa.Instruction) bool {
				arg, ok := patternOpArg(w, in, "AddPatternMap", wr)
				if !ok {
					return false
				}
				// same fact: the stored value and the indexed pattern share an origin
				return sharesOrigin(arg, mu.Value)
			}
			ins := ins
			hit, path := reach(fn, nil, func(x ssa.Instruction) bool { return x == ins }, isGoodAdd, ef)
			if hit == nil {
				r.ok("IDX-ADD", key, w.PosOf(ins), "a non-scheduled rule is indexed under its `when` before it is stored")
			} else {
				r.violation("IDX-ADD", key, w.PosOf(ins), "a non-scheduled rule can be stored in IdToFact without its `when` pattern being added to the rule index (or with a pattern from a different fact)", blockPathString(w, path)...)
			}
		}
	}
	r.stat("IDX-ADD.inserts", found)
}

// sharesOrigin: a and b depend on a common call result (e.g. both derive from PrepareFact's result).
func sharesOrigin(a, b ssa.Value) bool {
	origins := map[ssa.Value]bool{}
	dependsOn(b, func(v ssa.Value) bool {
		if c, ok := v.(*ssa.Call); ok {
			origins[c] = true
		}
		return false
	})
	return dependsOn(a, func(v ssa.Value) bool { return origins[v] })
}

// ---- IDX-VISIT / IDX-BRANCH ----------------------------------------------------------------------

func isPatternIndexPtr(t types.Type) bool {
	p, ok := t.(*types.Pointer)
	return ok && isNamed(p.Elem(), modPath+"/core", "PatternIndex")
}

func ruleIdxVisit(w *World, r *Report) {
	r.Rule("IDX-VISIT", "superset search: every child node that PatternIndex.searchPairs continues into (recursive receiver or continuation list) has its Ids collected, every child whose Ids are collected is continued into, and the root's own Ids are collected by the public search entry; an id left by mod on an uncollected node is a rule that never fires", 4)
	sp := w.Method("core", "PatternIndex", "searchPairs")
	recv := sp.Params[0]
	// child values: *PatternIndex values other than the receiver
	type childInfo struct {
		v         ssa.Value
		collected bool
		continued bool
		where     string
		kind      string
	}
	children := map[ssa.Value]*childInfo{}
	get := func(v ssa.Value) *childInfo {
		v = stripPhi(v)
		if v == recv || !isPatternIndexPtr(v.Type()) {
			return nil
		}
		if isNilConst(v) {
			return nil
		}
		ci := children[v]
		if ci == nil {
			ci = &childInfo{v: v, where: w.Pos(v.Pos()), kind: childKind(v)}
			children[v] = ci
		}
		return ci
	}
	allInstrs(sp, func(in ssa.Instruction) {
		switch x := in.(type) {
		case *ssa.FieldAddr:
			// c.Ids read
			if n, f, base, ok := fieldOf(x); ok && n.Obj().Name() == "PatternIndex" && f == "Ids" {
				if ci := get(base); ci != nil && flowsToAddAll(x) {
					ci.collected = true
				}
			}
		case ssa.CallInstruction:
			c := x.Common()
			if c.StaticCallee() == sp && len(c.Args) > 0 {
				if ci := get(c.Args[0]); ci != nil {
					ci.continued = true
				}
			}
			// append(next, child)
			if b, ok := c.Value.(*ssa.Builtin); ok && b.Name() == "append" && len(c.Args) == 2 {
				for _, el := range sliceLiteralElems(c.Args[1]) {
					if ci := get(el); ci != nil {
						ci.continued = true
					}
				}
			}
		}
	})
	// key nodes (looked up by the *key* in index.String) never carry Ids: mod always steps key then value.
	var keys []string
	byKey := map[string]*childInfo{}
	for _, ci := range children {
		if ci.kind == "key-node" {
			continue
		}
		k := ci.kind
		if old, ok := byKey[k]; ok {
			old.collected = old.collected || ci.collected
			old.continued = old.continued || ci.continued
			continue
		}
		byKey[k] = ci
		keys = append(keys, k)
	}
	sort.Strings(keys)
	for _, k := range keys {
		ci := byKey[k]
		key := "fn=" + fname(sp) + " child=" + k
		switch {
		case ci.continued && !ci.collected:
			r.violation("IDX-VISIT", key, ci.where, "the search continues into this child node but never collects the child's Ids: a pattern that ends on this node is never returned")
		case ci.collected && !ci.continued:
			r.violation("IDX-VISIT", key, ci.where, "the search collects this child's Ids but does not continue into it: patterns with further pairs below it are never returned")
		case ci.collected && ci.continued:
			r.ok("IDX-VISIT", key, ci.where, "child is collected and continued into")
		}
	}
	// root
	entry := w.Method("core", "PatternIndex", "SearchPatternsMap")
	rootCollected := false
	for _, fn := range []*ssa.Function{entry, sp} {
		allInstrs(fn, func(in ssa.Instruction) {
			if fa, ok := in.(*ssa.FieldAddr); ok {
				if n, f, base, ok := fieldOf(fa); ok && n.Obj().Name() == "PatternIndex" && f == "Ids" && base == ssa.Value(fn.Params[0]) && flowsToAddAll(fa) {
					rootCollected = true
				}
			}
		})
	}
	if rootCollected {
		r.ok("IDX-VISIT", "root node", w.Pos(entry.Pos()), "the receiver's own Ids are collected")
	} else {
		r.violation("IDX-VISIT", "root node", w.Pos(entry.Pos()), "no search path collects the Ids of the node the search starts on: a rule whose `when` is {} (or reduces to no pairs) is indexed on the root and never returned")
	}
}

func stripPhi(v ssa.Value) ssa.Value {
	for {
		switch x := v.(type) {
		case *ssa.Phi:
			// a phi of one non-nil value
			var nn ssa.Value
			cnt := 0
			for _, e := range x.Edges {
				if !isNilConst(e) {
					nn = e
					cnt++
				}
			}
			if cnt == 1 {
				v = nn
				continue
			}
			return v
		case *ssa.Extract:
			return v
		default:
			return v
		}
	}
}

// childKind names how a child node was obtained: field Var / field Map / lookup in a String map of a key node / of the receiver.
func childKind(v ssa.Value) string {
	switch x := v.(type) {
	case *ssa.UnOp:
		if x.Op == token.MUL {
			if _, f, _, ok := fieldOf(x.X); ok {
				return "field:" + f
			}
			if _, ok := x.X.(*ssa.IndexAddr); ok {
				return "key-node" // an element of the continuation list: accounted for where it was appended
			}
		}
	case *ssa.Extract:
		if lk, ok := x.Tuple.(*ssa.Lookup); ok {
			return lookupKind(lk)
		}
	case *ssa.Lookup:
		return lookupKind(x)
	case *ssa.Phi:
		var ks []string
		for _, e := range x.Edges {
			if !isNilConst(e) {
				ks = append(ks, childKind(e))
			}
		}
		sort.Strings(ks)
		if len(ks) > 0 && allSame(ks) {
			return ks[0]
		}
		return "phi(" + strings.Join(ks, ",") + ")"
	}
	return "other:" + v.Name()
}

func allSame(ks []string) bool {
	for _, k := range ks {
		if k != ks[0] {
			return false
		}
	}
	return true
}

func lookupKind(lk *ssa.Lookup) string {
	// map loaded from <base>.String
	if _, f, base, ok := loadedField(lk.X); ok && f == "String" {
		if _, isParam := base.(*ssa.Parameter); isParam {
			return "key-node" // index.String[k]
		}
		return "value-node:String"
	}
	// map held in a local: look through to the field
	if ph, ok := lk.X.(*ssa.Phi); ok {
		for _, e := range ph.Edges {
			if _, f, base, ok := loadedField(e); ok && f == "String" {
				if _, isParam := base.(*ssa.Parameter); isParam {
					return "key-node"
				}
				return "value-node:String"
			}
		}
	}
	return "lookup"
}

// flowsToAddAll: the loaded value of this field address is passed to a StringSet.AddAll call.
func flowsToAddAll(fa *ssa.FieldAddr) bool {
	res := false
	for _, ref := range *fa.Referrers() {
		u, ok := ref.(*ssa.UnOp)
		if !ok || u.Op != token.MUL {
			continue
		}
		for _, use := range *u.Referrers() {
			if c := callOf(use); c != nil {
				if o := calleeObj(c); o != nil && o.Name() == "AddAll" {
					res = true
				}
			}
		}
	}
	return res
}

// sliceLiteralElems: the values stored into the backing array of a variadic-append slice literal.
func sliceLiteralElems(v ssa.Value) []ssa.Value {
	sl, ok := v.(*ssa.Slice)
	if !ok {
		return nil
	}
	al, ok := sl.X.(*ssa.Alloc)
	if !ok {
		return nil
	}
	var out []ssa.Value
	for _, ref := range *al.Referrers() {
		if ia, ok := ref.(*ssa.IndexAddr); ok {
			for _, r2 := range *ia.Referrers() {
				if st, ok := r2.(*ssa.Store); ok && st.Addr == ia {
					out = append(out, st.Val)
				}
			}
		}
	}
	return out
}

// IDX-BRANCH: writer and reader of the index agree on the value kinds they handle.
func ruleIdxBranch(w *World, r *Report) {
	r.Rule("IDX-BRANCH", "sibling agreement: the set of dynamic value types PatternIndex.mod dispatches on equals the set PatternIndex.searchPairs dispatches on (a kind the writer indexes but the reader rejects or ignores is a rule that is never found)", 1)
	kinds := func(fn *ssa.Function) []string {
		set := map[string]bool{}
		allInstrs(fn, func(in ssa.Instruction) {
			ta, ok := in.(*ssa.TypeAssert)
			if !ok || !ta.CommaOk {
				return
			}
			// only assertions on the picast result (a call result) or on pair values
			set[types.TypeString(ta.AssertedType, func(p *types.Package) string { return p.Name() })] = true
		})
		var out []string
		for k := range set {
			out = append(out, k)
		}
		sort.Strings(out)
		return out
	}
	mod := w.Method("core", "PatternIndex", "mod")
	sp := w.Method("core", "PatternIndex", "searchPairs")
	km, ks := kinds(mod), kinds(sp)
	key := "mod vs searchPairs"
	if strings.Join(km, ",") == strings.Join(ks, ",") && len(km) >= 3 {
		r.ok("IDX-BRANCH", key, w.Pos(mod.Pos()), "both dispatch on {"+strings.Join(km, ", ")+"}")
	} else {
		r.violation("IDX-BRANCH", key, w.Pos(sp.Pos()), "mod dispatches on {"+strings.Join(km, ", ")+"} but searchPairs on {"+strings.Join(ks, ", ")+"}")
	}
}

func init() {
	register(&propertySpec{
		ID:      "C01",
		Explain: "Static pairing / provenance / sibling rules over the rule index of IndexedState, the pattern trie and the parsed-rule cache of both state implementations: structural necessary conditions of \"no matching rule is skipped because of how rules are indexed, and a removed / overwritten / re-patterned rule is never dispatched on its former pattern\". Does not decide completeness of the trie search beyond visit<=>collect, the bindings produced, ancestor merging or expiry timing.",
		Assume:  []string{"the rule index is touched only through PatternIndex.AddPatternMap / RemPatternMap / SearchPatternsMap (checked: callers are resolved through go/types)"},
		Rules:   []ruleFn{ruleIdxEmptyAll("C01"), ruleCacheInv, ruleIdxRem, ruleIdxAdd, ruleIdxVisit, ruleIdxBranch, ruleIdxSort, ruleDispRematch, ruleIdxRest, ruleIdxReset, ruleLoopExhaust("C01"), ruleCopyEmpty("C01"), ruleParentsValue("C01"), ruleIdxRollback("C01"), ruleIdxOrder("C01"), ruleAncOnce("C01"), ruleSchedAgree, ruleIdxKeyVar, ruleLessCovers, rulePicastIdem, ruleModIndex("C01"), ruleIdxSortTotal("C01"), ruleLostRuleSkip, ruleWhenAgree("C01"), ruleRuleShapedSkip("C01"), ruleIdxCanon("C01"), ruleCacheGen("C01"), ruleStateFresh("C01")},
	})
}
