package main

// report.go: obligations, known-findings matching, evidence and findings files.

import (
	"bufio"
	"encoding/json"
	"fmt"
	"os"
	"path/filepath"
	"sort"
	"strings"
	"time"
)

type Verdict string

const (
	OK        Verdict = "ok"
	Violation Verdict = "violation"
	Known     Verdict = "known"
	Exempt    Verdict = "exempt"
	Info      Verdict = "info"
)

// Obligation is one rule instance that was decided.
type Obligation struct {
	Rule    string   `json:"rule"`
	Key     string   `json:"key"`             // rule + construct, never a line number
	Where   string   `json:"where,omitempty"` // file:line for humans (not part of the key)
	Detail  string   `json:"detail,omitempty"`
	Verdict Verdict  `json:"verdict"`
	Reason  string   `json:"reason,omitempty"` // for exempt / info
	Path    []string `json:"path,omitempty"`   // call chain or CFG witness
}

type Report struct {
	Property string
	Tier     string
	Seed     int64
	Start    time.Time
	Obs      []Obligation
	Floors   map[string]int // rule -> minimum number of obligations confirmed by hand
	RuleDoc  map[string]string
	Stats    map[string]int // functions analysed, call sites, ...
	Notes    []string
	Assume   []string
	Explain  string
}

func newReport(prop, tier string, seed int64) *Report {
	return &Report{Property: prop, Tier: tier, Seed: seed, Start: time.Now(), Floors: map[string]int{}, RuleDoc: map[string]string{}, Stats: map[string]int{}}
}

func (r *Report) Rule(name, doc string, floor int) {
	r.RuleDoc[name] = doc
	if floor > r.Floors[name] {
		r.Floors[name] = floor
	}
}

func (r *Report) add(o Obligation) {
	// de-duplicate by key+verdict
	for i := range r.Obs {
		if r.Obs[i].Key == o.Key && r.Obs[i].Rule == o.Rule {
			// keep the worst verdict
			if r.Obs[i].Verdict != Violation && o.Verdict == Violation {
				r.Obs[i] = o
			}
			return
		}
	}
	r.Obs = append(r.Obs, o)
}

func (r *Report) ok(rule, key, where, detail string) {
	r.add(Obligation{Rule: rule, Key: rule + "|" + key, Where: where, Detail: detail, Verdict: OK})
}
func (r *Report) violation(rule, key, where, detail string, path ...string) {
	r.add(Obligation{Rule: rule, Key: rule + "|" + key, Where: where, Detail: detail, Verdict: Violation, Path: path})
}
func (r *Report) exempt(rule, key, where, reason string) {
	r.add(Obligation{Rule: rule, Key: rule + "|" + key, Where: where, Verdict: Exempt, Reason: reason})
}
func (r *Report) info(rule, key, where, reason string) {
	r.add(Obligation{Rule: rule, Key: rule + "|" + key, Where: where, Verdict: Info, Reason: reason})
}
func (r *Report) stat(k string, n int) { r.Stats[k] += n }

// ---- known findings ---------------------------------------------------------------------

type knownEntry struct {
	Kind     string // finding | fixed
	Property string
	Key      string
	Text     string
}

// known_findings.txt format, one per line:
//
//	finding: property=C12 key=<RULE|construct> :: what fails
//	fixed: property=C19 <commit> key=<RULE|construct> :: what failed
func loadKnown(path string) []knownEntry {
	f, err := os.Open(path)
	if err != nil {
		return nil
	}
	defer f.Close()
	var out []knownEntry
	sc := bufio.NewScanner(f)
	sc.Buffer(make([]byte, 1<<20), 1<<20)
	for sc.Scan() {
		line := strings.TrimSpace(sc.Text())
		if line == "" || strings.HasPrefix(line, "#") {
			continue
		}
		var e knownEntry
		switch {
		case strings.HasPrefix(line, "finding:"):
			e.Kind = "finding"
			line = strings.TrimSpace(strings.TrimPrefix(line, "finding:"))
		case strings.HasPrefix(line, "fixed:"):
			e.Kind = "fixed"
			line = strings.TrimSpace(strings.TrimPrefix(line, "fixed:"))
		default:
			continue
		}
		if i := strings.Index(line, " :: "); i >= 0 {
			e.Text = line[i+4:]
			line = line[:i]
		}
		for _, tok := range strings.Fields(line) {
			if strings.HasPrefix(tok, "property=") {
				e.Property = strings.TrimPrefix(tok, "property=")
			}
		}
		if i := strings.Index(line, "key="); i >= 0 {
			e.Key = strings.TrimSpace(line[i+4:])
		}
		out = append(out, e)
	}
	return out
}

// ---- finishing --------------------------------------------------------------------------

func verifDir() string {
	if d := os.Getenv("VERIF_DIR"); d != "" {
		return d
	}
	return "/verif"
}

// finish matches violations against the known-findings file, prints the verdict lines, writes the
// evidence and findings files and returns the exit code.
func (r *Report) finish() int {
	vd := verifDir()
	known := loadKnown(filepath.Join(vd, "known_findings.txt"))
	kset := map[string]knownEntry{}
	for _, k := range known {
		if k.Kind == "finding" && k.Property == r.Property {
			kset[k.Key] = k
		}
	}
	sort.SliceStable(r.Obs, func(i, j int) bool {
		if r.Obs[i].Rule != r.Obs[j].Rule {
			return r.Obs[i].Rule < r.Obs[j].Rule
		}
		return r.Obs[i].Key < r.Obs[j].Key
	})
	perRule := map[string]int{}
	perRuleV := map[string]map[Verdict]int{}
	var unlisted, listed []Obligation
	for i := range r.Obs {
		o := &r.Obs[i]
		if o.Verdict == Violation {
			if k, ok := kset[o.Key]; ok {
				o.Verdict = Known
				o.Reason = k.Text
				listed = append(listed, *o)
			} else {
				unlisted = append(unlisted, *o)
			}
		}
		perRule[o.Rule]++
		if perRuleV[o.Rule] == nil {
			perRuleV[o.Rule] = map[Verdict]int{}
		}
		perRuleV[o.Rule][o.Verdict]++
	}
	// floors: a rule matching fewer instances than confirmed by hand is UNDECIDED, not a pass
	var below []string
	var rules []string
	for rule := range r.RuleDoc {
		rules = append(rules, rule)
	}
	sort.Strings(rules)
	for _, rule := range rules {
		if perRule[rule] < r.Floors[rule] {
			below = append(below, fmt.Sprintf("%s: %d instances < floor %d", rule, perRule[rule], r.Floors[rule]))
		}
	}

	// print
	fmt.Printf("rulint property=%s tier=%s obligations=%d\n", r.Property, r.Tier, len(r.Obs))
	for _, rule := range rules {
		fmt.Printf("  rule %-18s instances=%-4d %v  (floor %d)\n", rule, perRule[rule], fmtVerdicts(perRuleV[rule]), r.Floors[rule])
	}
	for _, o := range listed {
		fmt.Printf("KNOWN-FINDING: property=%s %s :: %s [%s]\n", r.Property, o.Key, o.Reason, o.Where)
	}
	// known entries that no longer reproduce are reported (informational): the file is never edited at run time
	seen := map[string]bool{}
	for _, o := range listed {
		seen[o.Key] = true
	}
	var stale []string
	for k := range kset {
		if !seen[k] {
			stale = append(stale, k)
		}
	}
	sort.Strings(stale)
	for _, k := range stale {
		fmt.Printf("note: listed finding no longer reproduces: property=%s %s\n", r.Property, k)
	}

	findingsPath := filepath.Join(vd, "evidence", r.Property+".findings.json")
	os.MkdirAll(filepath.Join(vd, "evidence"), 0o755)
	{
		fj := map[string]interface{}{"property_id": r.Property, "tier": r.Tier, "unlisted_violations": unlisted, "known_findings": listed}
		b, _ := json.MarshalIndent(fj, "", " ")
		os.WriteFile(findingsPath, b, 0o644)
	}

	if os.Getenv("RULINT_EMIT_KNOWN") != "" {
		// developer aid: print candidate known-findings lines (to be triaged by hand, never auto-added)
		for _, o := range unlisted {
			fmt.Printf("CANDIDATE finding: property=%s key=%s :: %s\n", r.Property, o.Key, o.Detail)
		}
	}
	{
		b, _ := json.MarshalIndent(map[string]interface{}{"property_id": r.Property, "tier": r.Tier, "obligations": r.Obs}, "", " ")
		os.WriteFile(filepath.Join(vd, "evidence", r.Property+".obligations.json"), b, 0o644)
	}
	exit := 0
	if len(below) > 0 {
		for _, b := range below {
			fmt.Printf("UNDECIDED property=%s %s\n", r.Property, b)
		}
		exit = 2
	}
	if len(unlisted) > 0 {
		for _, o := range unlisted {
			fmt.Printf("finding: %s %s %s", o.Where, o.Key, o.Detail)
			if len(o.Path) > 0 {
				fmt.Printf(" path: %s", strings.Join(o.Path, " -> "))
			}
			fmt.Println()
		}
		fmt.Printf("VIOLATION property=%s replay=%s\n", r.Property, findingsPath)
		exit = 1
	}

	// evidence
	discharged := 0
	for _, o := range r.Obs {
		if o.Verdict == OK || o.Verdict == Exempt || o.Verdict == Info || o.Verdict == Known {
			discharged++
		}
	}
	var samples []interface{}
	sampleCount := map[string]int{}
	for _, o := range r.Obs {
		lim := 3
		if o.Verdict == Known || o.Verdict == Violation || o.Verdict == Exempt {
			lim = 50
		}
		if sampleCount[o.Rule+string(o.Verdict)] < lim {
			sampleCount[o.Rule+string(o.Verdict)]++
			samples = append(samples, o)
		}
	}
	ruleTable := []map[string]interface{}{}
	for _, rule := range rules {
		ruleTable = append(ruleTable, map[string]interface{}{
			"rule": rule, "doc": r.RuleDoc[rule], "instances": perRule[rule], "floor": r.Floors[rule], "verdicts": perRuleV[rule],
		})
	}
	distinct := map[string]bool{}
	for _, o := range r.Obs {
		distinct[o.Key] = true
	}
	cov := map[string]interface{}{
		"explanation":         r.Explain,
		"obligations":         len(r.Obs),
		"discharged":          discharged,
		"evaluations":         len(r.Obs),
		"distinct_nontrivial": len(distinct),
		"rule":                "one obligation per rule instance (a sink x entry pair, a guarded access, a call site, a case clause, an SCC ...) found by the static rules in /repo's current source; distinct = distinct rule|construct keys; every instance is non-trivial in that it is a concrete construct of the analysed tree",
		"rules":               ruleTable,
		"stats":               r.Stats,
		"samples":             samples,
		"checker_cmd":         strings.Join(os.Args, " "),
		"trusted_base":        []string{"go/types, go/ssa, callgraph/vta+cha of golang.org/x/tools v0.29.0", "hand-written anchor tables in /verif/rulint (resolved through go/types on every run)"},
		"known_findings":      len(listed),
		"unlisted_violations": len(unlisted),
		"undecided":           below,
		"notes":               r.Notes,
		"exhaustive":          false,
	}
	assume := append([]string{
		"go/types, go/ssa and the VTA call graph of golang.org/x/tools v0.29.0 model the program faithfully (reflection is invisible to them; functions without a rulio caller are treated as entries)",
		"the anchors (types, methods, fields, interface implementers) resolved through go/types on this run are the ones the rules were written for; an unresolved anchor is UNDECIDED, never a pass",
	}, r.Assume...)
	ev := map[string]interface{}{
		"property_id": r.Property,
		"tier":        r.Tier,
		"seed":        r.Seed,
		"level":       "other",
		"coverage":    cov,
		"assumptions": assume,
		"wall_s":      time.Since(r.Start).Seconds(),
		"violations":  len(unlisted),
	}
	b, _ := json.MarshalIndent(ev, "", " ")
	if err := os.WriteFile(filepath.Join(vd, "evidence", r.Property+".json"), b, 0o644); err != nil {
		fmt.Printf("UNDECIDED property=%s cannot write evidence: %v\n", r.Property, err)
		if exit == 0 {
			exit = 2
		}
	}
	if exit == 0 {
		fmt.Printf("PASS property=%s obligations=%d discharged=%d known=%d wall=%.1fs\n", r.Property, len(r.Obs), discharged, len(listed), time.Since(r.Start).Seconds())
	}
	return exit
}

func fmtVerdicts(m map[Verdict]int) string {
	var ks []string
	for k := range m {
		ks = append(ks, string(k))
	}
	sort.Strings(ks)
	var parts []string
	for _, k := range ks {
		parts = append(parts, fmt.Sprintf("%s=%d", k, m[Verdict(k)]))
	}
	return strings.Join(parts, " ")
}
