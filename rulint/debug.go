package main

import (
	"fmt"
	"go/types"
	"golang.org/x/tools/go/ssa"
	"os"
	"sort"
)

// debugLockInfer prints, for every struct that contains a sync mutex, how each field is accessed
// (locally under the lock or not).  Used once to discover candidates for the frozen guard table.
func debugLockInfer(repo string) {
	w := loadWorld(repo, false)
	var guards []*guardSpec
	var rels []string
	for rel := range w.ByRel {
		rels = append(rels, rel)
	}
	sort.Strings(rels)
	for _, rel := range rels {
		sc := w.ByRel[rel].Types.Scope()
		for _, nm := range sc.Names() {
			tn, ok := sc.Lookup(nm).(*types.TypeName)
			if !ok {
				continue
			}
			n, ok := tn.Type().(*types.Named)
			if !ok {
				continue
			}
			st, ok := n.Underlying().(*types.Struct)
			if !ok {
				continue
			}
			var locks []string
			for i := 0; i < st.NumFields(); i++ {
				if isSyncMutex(st.Field(i).Type()) {
					locks = append(locks, st.Field(i).Name())
				}
			}
			if len(locks) == 0 {
				continue
			}
			g := &guardSpec{Owner: typeKey(n), Lock: typeKey(n) + "." + locks[0], Fields: map[string]bool{}}
			for i := 0; i < st.NumFields(); i++ {
				if !isSyncMutex(st.Field(i).Type()) {
					g.Fields[st.Field(i).Name()] = true
				}
			}
			guards = append(guards, g)
			fmt.Printf("struct %s locks=%v fields=%d\n", typeKey(n), locks, len(g.Fields))
		}
	}
	e := newLocksetEngine(w, guards)
	fs := e.findings(nil)
	type cnt struct{ ok, bad int }
	for _, f := range fs {
		fmt.Printf("%-40s %-5s need=%s have=%s in=%s root=%s kind=%s @%s\n", f.Req.Field, f.Req.Access, f.Req.Mode, f.Req.Have, f.Req.In, f.Root, f.Kind, f.Req.Where)
	}
	fmt.Fprintf(os.Stderr, "accesses=%d lockops=%d fns=%d fresh=%d findings=%d\n", e.accesses, e.lockOps, e.fnAnalysed, e.freshExempt, len(fs))
}

func debugPanics(repo string) {
	w := loadWorld(repo, false)
	n := 0
	for _, fn := range w.Funcs {
		if isTestFile(w, fn) {
			continue
		}
		p := w.RelPkg(fn)
		if p != "core" && p != "sys" && p != "service" && p != "cron" {
			continue
		}
		var sites []panicSite
		sites = append(sites, uncheckedAsserts(fn)...)
		sites = append(sites, explicitPanics(fn)...)
		sites = append(sites, constIndexSites(fn)...)
		for _, s := range sites {
			n++
			fmt.Printf("%-7s %-45s %s %s\n", s.Kind, fname(fn), w.PosOf(s.In), s.Desc)
		}
	}
	fmt.Println("total", n)
}

func debugGlobals(repo string) {
	w := loadWorld(repo, false)
	for k, v := range globalWriters(w) {
		fmt.Println(k, "<-", v)
	}
}

// debugLoops lists every loop with an early exit (break / success return inside the loop) in rulio's packages.
func debugLoops(repo string) {
	w := loadWorld(repo, false)
	n, total := 0, 0
	for _, fn := range w.Funcs {
		if isTestFile(w, fn) || fn.Synthetic != "" {
			continue
		}
		for _, l := range naturalLoops(fn) {
			total++
			for _, ex := range loopEarlyExits(l) {
				n++
				last := ex.From.Instrs[len(ex.From.Instrs)-1]
				kind := "break"
				if ex.Succ < 0 {
					kind = "return"
				}
				fmt.Printf("%-6s %-55s %s\n", kind, fname(fn), w.PosOf(last))
			}
		}
	}
	fmt.Println("loops", total, "early exits", n)
}

// debugDeadParams lists parameters (other than *Context and receivers) of rulio functions that have no use at all.
func debugDeadParams(repo string) {
	w := loadWorld(repo, false)
	n := 0
	for _, fn := range w.Funcs {
		if isTestFile(w, fn) || fn.Synthetic != "" || fn.Parent() != nil {
			continue
		}
		for i, p := range fn.Params {
			if i == 0 && fn.Signature.Recv() != nil {
				continue
			}
			if p.Name() == "_" || p.Name() == "" {
				continue
			}
			if pt, ok := p.Type().(*types.Pointer); ok && isNamed(pt.Elem(), modPath+"/core", "Context") {
				continue
			}
			refs := p.Referrers()
			used := false
			if refs != nil {
				for _, r := range *refs {
					if _, isDbg := r.(*ssa.DebugRef); !isDbg {
						used = true
					}
				}
			}
			if !used {
				n++
				fmt.Printf("%-60s %s %s\n", fname(fn), p.Name(), w.Pos(fn.Pos()))
			}
		}
	}
	fmt.Println("dead params", n)
}
